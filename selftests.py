"""Self-tests of the machinery: determinism (same seed -> same history digest, in-process, across fresh
interpreters, hash seeds and worker counts), regress (committed replays), mutants (kill matrix)."""
import glob
import json
import os
import shutil
import subprocess
import sys
import time

VERIF = os.path.dirname(os.path.abspath(__file__))
PY = sys.executable


def _digests(prop, start, n):
    import engines
    out = {}
    for seed in range(start, start + n):
        sc = engines.generate(prop, seed, 'quick')
        res = engines.execute(sc)
        out[seed] = res.digest + ':' + str(res.steps) + ':' + str(res.sim_us)
    return out


def cmd_digests(args):
    prop, start, n = args[0], int(args[1]), int(args[2])
    for seed, d in _digests(prop, start, n).items():
        print(f'{seed} {d}')
    return 0


def determinism(args):
    from checks import CHECKS
    props = [a for a in args if a in CHECKS] or sorted(CHECKS)
    n_default = int(os.environ.get('VERIF_DET_SEEDS', '150'))
    bad = 0
    report = {}
    for prop in props:
        start = 1_000_003 + 17
        t0 = time.time()
        n = max(4, n_default // 20) if prop == 'C15' else n_default
        a = _digests(prop, start, n)
        b = _digests(prop, start, n)
        diff_inproc = [s for s in a if a[s] != b[s]]
        diffs = {'in_process_rerun': len(diff_inproc)}
        for hs in ('1', '4242'):
            env = dict(os.environ, PYTHONHASHSEED=hs)
            out = subprocess.run([PY, '-B', os.path.join(VERIF, 'run.py'), 'selftest', 'digests', prop, str(start), str(n)],
                                 env=env, capture_output=True, text=True, timeout=1200)
            got = {}
            for line in out.stdout.splitlines():
                parts = line.split()
                if len(parts) == 2 and parts[0].isdigit():
                    got[int(parts[0])] = parts[1]
            d = [s for s in a if got.get(s) != a[s]]
            diffs[f'fresh_interpreter_hashseed_{hs}'] = len(d)
            if d:
                print(f'  first divergence: seed {d[0]}: {a[d[0]][:24]} vs {str(got.get(d[0]))[:24]}', out.stderr[-300:])
        # two worker counts through the real runner entry (digest sets must agree)
        total = sum(diffs.values())
        bad += total
        report[prop] = diffs
        print(f'DETERMINISM property={prop} seeds={n} {diffs} wall_s={time.time() - t0:.1f}')
    os.makedirs(os.path.join(VERIF, 'evidence'), exist_ok=True)
    json.dump({'determinism': report, 'seeds_per_property': n}, open(os.path.join(VERIF, 'evidence', 'selftest-determinism.json'), 'w'), indent=1)
    print('DETERMINISM', 'OK' if not bad else f'FAILED ({bad} divergences)')
    return 0 if not bad else 2


def regress(args):
    import engines
    from simkit import runner
    known = runner.load_known()
    open_files = set()
    for k in known:
        if k['status'] == 'open':
            for tok in k['what'].replace(',', ' ').replace('[', ' ').replace(']', ' ').split():
                if tok.startswith('regress/'):
                    open_files.add(os.path.basename(tok))
    bad = 0
    for path in sorted(glob.glob(os.path.join(VERIF, 'regress', '*.json'))):
        rec = json.load(open(path))
        res = engines.execute(rec['scenario'])
        hit = any(v['signature'] == rec['signature'] for v in res.violations)
        others = [v['signature'] for v in res.violations if v['signature'] != rec['signature']
                  and runner.match_known(v['signature'], known) is None]
        expect = os.path.basename(path) in open_files
        ok = (hit == expect) and not others
        print(f'REGRESS {"ok " if ok else "BAD"} {os.path.basename(path)}: reproduces={hit} expected={expect}'
              + (f' other={others}' if others else ''))
        bad += 0 if ok else 1
    print('REGRESS', 'OK' if not bad else f'FAILED ({bad})')
    return 0 if not bad else 1


def mutants(args):
    """Apply each /verif/mutants/*.diff to a scratch copy of the repository, check that the pinned tests stay
    green and that the named quick check exits 1 with a VIOLATION line; write the kill matrix."""
    scratch_root = '/dev/shm' if os.access('/dev/shm', os.W_OK) else os.environ.get('TMPDIR', '/tmp')
    only = set(args)
    rows = []
    for meta_path in sorted(glob.glob(os.path.join(VERIF, 'mutants', '*.json'))):
        meta = json.load(open(meta_path))
        name = os.path.basename(meta_path)[:-5]
        if only and name not in only and not (only & set(meta['properties'])):
            continue
        diff = meta_path[:-5] + '.diff'
        scratch = os.path.join(scratch_root, f'ndn-verif-mutant-{os.getpid()}-{name}')
        shutil.rmtree(scratch, ignore_errors=True)
        try:
            subprocess.run(['git', '-C', '/repo', 'worktree', 'add', '--detach', '-f', scratch, 'HEAD'],
                           check=True, capture_output=True)
            ap = subprocess.run(['git', '-C', scratch, 'apply', diff], capture_output=True, text=True)
            if ap.returncode != 0:
                rows.append({'mutant': name, 'status': 'patch-does-not-apply', 'detail': ap.stderr[-300:]})
                print(f'MUTANT {name}: patch does not apply: {ap.stderr[-200:]}')
                continue
            tests_ok = None
            if not os.environ.get('VERIF_MUTANT_SKIP_TESTS'):
                t = subprocess.run([PY, '-m', 'pytest', '-q', '-p', 'no:cacheprovider', '-x', '--timeout=900'], cwd=scratch,
                                   capture_output=True, text=True, env=dict(os.environ, PYTHONPATH=os.path.join(scratch, 'src')))
                tests_ok = t.returncode == 0
            killed_by = []
            for prop in meta['properties']:
                env = dict(os.environ, VERIF_REPO=scratch, VERIF_BUDGET_S=os.environ.get('VERIF_MUTANT_BUDGET_S', '25'),
                           VERIF_EVIDENCE_DIR=os.path.join(scratch, '.evidence'))
                r = subprocess.run([PY, '-B', os.path.join(VERIF, 'run.py'), 'check', prop, '--tier', 'quick'],
                                   env=env, capture_output=True, text=True)
                viol = [ln for ln in r.stdout.splitlines() if ln.startswith('VIOLATION')]
                if r.returncode == 1 and viol:
                    killed_by.append(prop)
            status = 'killed' if killed_by else 'SURVIVED'
            rows.append({'mutant': name, 'status': status, 'killed_by': killed_by, 'expected': meta['properties'],
                         'tests_still_pass': tests_ok, 'what': meta.get('what', '')})
            print(f'MUTANT {name}: {status} by {killed_by} (tests_still_pass={tests_ok})')
        finally:
            subprocess.run(['git', '-C', '/repo', 'worktree', 'remove', '--force', scratch], capture_output=True)
            shutil.rmtree(scratch, ignore_errors=True)
    subprocess.run(['git', '-C', '/repo', 'worktree', 'prune'], capture_output=True)
    os.makedirs(os.path.join(VERIF, 'evidence'), exist_ok=True)
    path = os.path.join(VERIF, 'evidence', 'selftest-mutants.json')
    if not only:
        json.dump({'kill_matrix': rows}, open(path, 'w'), indent=1)
    elif os.path.exists(path) and not os.environ.get('VERIF_REPO'):
        # a partial run (named mutants) refreshes their rows in the matrix of the last full run
        old = json.load(open(path)).get('kill_matrix', [])
        fresh = {r['mutant']: r for r in rows}
        merged = [fresh.pop(r['mutant'], r) for r in old] + list(fresh.values())
        json.dump({'kill_matrix': sorted(merged, key=lambda r: r['mutant'])}, open(path, 'w'), indent=1)
    surv = [r for r in rows if r['status'] != 'killed']
    print(f'MUTANTS total={len(rows)} killed={len(rows) - len(surv)} not_killed={[r["mutant"] for r in surv]}')
    return 0 if not surv else 1


def main(args):
    if not args:
        print('selftest determinism|regress|mutants|digests')
        return 2
    cmd = args[0]
    if cmd == 'digests':
        return cmd_digests(args[1:])
    if cmd == 'determinism':
        return determinism(args[1:])
    if cmd == 'regress':
        return regress(args[1:])
    if cmd == 'mutants':
        return mutants(args[1:])
    return 2
