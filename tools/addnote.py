#!/venv/bin/python
"""addnote.py <seed id> <file(s), comma separated> <what> <needs> [history]  -> tools/seed_notes.json"""
import json, sys, os
p = os.path.join(os.path.dirname(os.path.abspath(__file__)), 'seed_notes.json')
n = json.load(open(p))
sid, files, what, needs = sys.argv[1:5]
n[sid] = {'files': files.split(','), 'what': what, 'needs': needs, 'history': sys.argv[5] if len(sys.argv) > 5 else n.get(sid, {}).get('history', '')}
json.dump(n, open(p, 'w'), indent=1)
