#!/venv/bin/python
"""Regenerate /verif/MANIFEST.json from checks.CHECKS (single source of truth) and validate it."""
import json
import os
import sys

sys.path.insert(0, os.path.dirname(os.path.dirname(os.path.abspath(__file__))))
sys.path.insert(0, '/repo/src')
from checks import CHECKS, ENGINES_META  # noqa

NA = {
    'C01': 'pure encode/decode round trip of make_interest/make_data/parse_*: a total function of its arguments; no schedule, clock, transport, storage or fault for a simulator to control (the encoder and decoder still run unstubbed inside every simulation)',
    'C07': 'decoder accept/reject strictness and termination are functions of one byte string; no schedule, fault or state is involved',
    'C08': 'TLV model encode/decode is a pure function of (model class, field values)',
    'C09': 'name URI/list/wire conversions and ordering are pure functions of names',
    'C11': 'schema compilation and matching are pure functions of (schema text, name); save/load is in-memory bytes',
    'C12': 'the signing check is a pure function of (schema, packet name, key name)',
    'C13': 'static schema/model rejection is a pure function of the text or bytes; a corrupted model is just another input to Checker.load, no I/O or timing involved',
    'C16': 'certificate construction is a pure function of (names, keys, times); the only clock read supplies a version number and default validity',
}
PLANNED = ['C02', 'C03', 'C04', 'C05', 'C06', 'C10', 'C14', 'C15', 'C17', 'C18', 'C19', 'C20']

checks = []
for pid in sorted(CHECKS):
    m = CHECKS[pid]
    checks.append({
        'property_id': pid,
        'quick_cmd': f'/venv/bin/python -B /verif/run.py check {pid} --tier quick',
        'thorough_cmd': f'/venv/bin/python -B /verif/run.py check {pid} --tier thorough',
        'evidence_file': f'/verif/evidence/{pid}.json',
        'replay_cmd_template': '/venv/bin/python -B /verif/run.py replay {path}',
        'engine': m['engine'],
        'level_claimed': {'category': m['level'], 'text': m['text'], 'design_ref': m['design_ref']},
        'level_note': m['note'],
        'technique': m['technique'],
    })
na = [{'property_id': k, 'reason': v} for k, v in sorted(NA.items())]
for p in PLANNED:
    if p not in CHECKS:
        na.append({'property_id': p, 'reason': 'simulation planned in DESIGN.md section 5 but the engine is not built yet '
                                               'in this revision; not claimed until it is'})
man = {
    'version': 1,
    'setup_cmd': '/venv/bin/python -B /verif/run.py setup',
    'hooks': {
        'guard': 'NDN_VERIF_SIM',
        'enable': 'no source hooks exist: every seam is a module attribute that /verif rebinds at run time '
                  '(run.py sets NDN_VERIF_SIM=1 for its own process only; /repo never reads it)',
        'baseline_off_cmd': 'cd /repo && /venv/bin/python -m pytest -ra -q -p no:cacheprovider --timeout=900 '
                            '--continue-on-collection-errors',
        'source_commits': [],
        'add_only': True,
    },
    'engines': ENGINES_META,
    'checks': checks,
    'notes': 'Deterministic simulation with fault injection (DESIGN.md). Exit 0 = held on everything explored; exit 1 + '
             'VIOLATION line = violation not listed in known_findings.txt; exit 2 + HARNESS-ERROR = the machinery failed.',
    'not_applicable': na,
}
path = os.path.join(os.path.dirname(os.path.dirname(os.path.abspath(__file__))), 'MANIFEST.json')
json.dump(man, open(path, 'w'), indent=1)
try:
    import jsonschema
    jsonschema.validate(man, json.load(open('/root/.vp/MANIFEST.schema.json')))
    print('MANIFEST.json written and valid;', len(checks), 'checks,', len(na), 'not applicable')
except ImportError:
    print('MANIFEST.json written (jsonschema not available for validation)')
