#!/bin/sh
# long consolidation pass: meta.json of every seeded change (3 in parallel), then the full mutant matrix
cd /verif
ls -d seeded/*/ | sed 's#/$##' > /tmp/allseeds.txt
split -n l/3 /tmp/allseeds.txt /tmp/seedgrp.
for g in /tmp/seedgrp.a?; do (VERIF_BUDGET_S=40 /venv/bin/python tools/seedmeta.py $(cat $g) > $g.out 2>&1 &) ; done
sleep 5
while pgrep -f "seedmeta[.]py" >/dev/null; do sleep 20; done
cat /tmp/seedgrp.a?.out > /verif/out/seedmeta-all.log
/venv/bin/python -B run.py selftest mutants > /verif/out/mutants.log 2>&1
echo REFRESH-DONE >> /verif/out/mutants.log
