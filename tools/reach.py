#!/venv/bin/python
"""Reach measurement: run N seeds of each claimed check in-process under coverage.py and list the lines of the
library's anchor files that no simulated run executed.  usage: reach.py [N] [PROP ...]  (report -> out/reach.txt)"""
import os
import sys
sys.path.insert(0, os.path.dirname(os.path.dirname(os.path.abspath(__file__))))
REPO = os.environ.get('VERIF_REPO', '/repo')
sys.path.insert(0, os.path.join(REPO, 'src'))
os.environ.setdefault('NDN_VERIF_SIM', '1')
import coverage  # noqa

n = int(sys.argv[1]) if len(sys.argv) > 1 else 300
props = sys.argv[2:] or 'C02 C03 C04 C05 C06 C10 C14 C15 C17 C18 C19 C20'.split()
cov = coverage.Coverage(source=[os.path.join(REPO, 'src', 'ndn')], data_file=None, branch=False)
cov.start()
from simkit import runner  # noqa
for p in props:
    for i in range(n):
        try:
            runner.run_seed(p, 1 * 1_000_003 + i, 'quick')
        except Exception as e:  # reach only
            print('run error', p, i, type(e).__name__, e)
cov.stop()
out = os.path.join(os.path.dirname(os.path.dirname(os.path.abspath(__file__))), 'out', 'reach.txt')
with open(out, 'w') as f:
    cov.report(file=f, show_missing=True, skip_covered=False,
               omit=['*/ndn/bin/*', '*/ndn/contrib/*', '*/ndn/schema/*', '*/ndn/platform/windows*', '*/ndn/platform/osx*',
                     '*/ndn/security/tpm/tpm_osx*', '*/ndn/security/tpm/tpm_cng*', '*/ndn/transport/ndn_dpdk*'])
print('written', out)
