#!/venv/bin/python
"""Run seedcheck for the given seeded dirs and write/refresh their meta.json.
usage: seedmeta.py <seeded dir>...   (properties to check are read from an existing meta.json or inferred from the dir name)"""
import json
import os
import subprocess
import sys

NOTES = json.load(open(os.path.join(os.path.dirname(os.path.abspath(__file__)), 'seed_notes.json')))

for sd in sys.argv[1:]:
    sd = os.path.abspath(sd)
    name = os.path.basename(sd)
    note = NOTES.get(name, {})
    props = note.get('check_with') or [name.split('-')[0]]
    r = subprocess.run([os.path.join(os.path.dirname(os.path.abspath(__file__)), 'seedcheck.py'), sd] + props,
                       capture_output=True, text=True, env=dict(os.environ, VERIF_BUDGET_S=os.environ.get('VERIF_BUDGET_S', '30')))
    try:
        res = json.loads(r.stdout)
    except Exception:
        print(name, 'seedcheck failed', r.stdout[-300:], r.stderr[-300:])
        continue
    caught = {p: c for p, c in res.get('checks', {}).items() if c['exit'] == 1}
    meta = {
        'id': name,
        'breaks_property': note.get('property', name.split('-')[0]),
        'origin': 'independent sub-agent given only the property text and a scratch worktree (round %s)' % __import__('re').search(r'-r(\d+)', name).group(1),
        'files_changed': note.get('files'),
        'what_the_change_is': note.get('what'),
        'needs_in_order_to_manifest': note.get('needs'),
        'confirmed_by_me': {
            'how': 'tools/seedcheck.py in a scratch worktree of /repo HEAD under /dev/shm (removed afterwards)',
            'patch_applies_to_head': res.get('patch_applies'),
            'baseline_tests_pass_with_patch': res.get('tests_pass_with_patch'),
            'tests_tail': res.get('tests_tail'),
            'demo_exit_without_patch': res.get('demo_unpatched_exit'),
            'demo_exit_with_patch': res.get('demo_patched_exit'),
        },
        'checks_run': {p: {'exit': c['exit'], 'wall_s': c['wall_s'], 'signatures': c['signatures']} for p, c in res.get('checks', {}).items()},
        'caught_by': sorted(caught),
        'history': note.get('history', ''),
        'neutralised': 'NEUTRALISED' in note.get('history', ''),
    }
    json.dump(meta, open(os.path.join(sd, 'meta.json'), 'w'), indent=1)
    print(name, 'valid' if (res.get('tests_pass_with_patch') and res.get('demo_unpatched_exit') == 0 and res.get('demo_patched_exit')) else 'INVALID',
          'caught_by', sorted(caught))
