#!/bin/sh
# run the pinned baseline of /repo (guard off) - used before every fix: commit
cd "${1:-/repo}" && env -u NDN_VERIF_SIM /venv/bin/python -m pytest -q -p no:cacheprovider --timeout=900 --continue-on-collection-errors 2>&1 | tail -3
