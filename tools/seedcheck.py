#!/venv/bin/python
"""Verify a seeded change and run the named quick checks against it, in a scratch worktree of /repo.
usage: seedcheck.py <seeded dir> <PROP> [<PROP> ...]   (env VERIF_BUDGET_S for the checks)"""
import json
import os
import shutil
import subprocess
import sys
import time

PY = '/venv/bin/python'


def main():
    sd = os.path.abspath(sys.argv[1])
    props = sys.argv[2:]
    name = os.path.basename(sd)
    root = '/dev/shm' if os.access('/dev/shm', os.W_OK) else '/tmp'
    wt = os.path.join(root, f'seedchk-{name}-{os.getpid()}')
    out = {'seed': name, 'checked_at': time.strftime('%Y-%m-%dT%H:%M:%S')}
    try:
        for attempt in range(6):
            # (several of these may run side by side: git serialises worktree changes with a lock file)
            r0 = subprocess.run(['git', '-C', '/repo', 'worktree', 'add', '--detach', '-f', wt, 'HEAD'], capture_output=True)
            if r0.returncode == 0:
                break
            time.sleep(1 + attempt)
        else:
            r0.check_returncode()
        env = dict(os.environ, PYTHONPATH=os.path.join(wt, 'src'))
        shutil.copy(os.path.join(sd, 'demo.py'), os.path.join(wt, 'seed_demo.py'))
        r = subprocess.run([PY, 'seed_demo.py'], cwd=wt, env=env, capture_output=True, text=True, timeout=120)
        out['demo_unpatched_exit'] = r.returncode
        ap = subprocess.run(['git', '-C', wt, 'apply', os.path.join(sd, 'patch.diff')], capture_output=True, text=True)
        out['patch_applies'] = ap.returncode == 0
        if ap.returncode != 0:
            out['patch_error'] = ap.stderr[-300:]
            print(json.dumps(out, indent=1))
            return 1
        t = subprocess.run([PY, '-m', 'pytest', '-q', '-p', 'no:cacheprovider', '--timeout=900'], cwd=wt, env=env, capture_output=True, text=True)
        out['tests_pass_with_patch'] = t.returncode == 0
        out['tests_tail'] = t.stdout.strip().splitlines()[-1] if t.stdout.strip() else ''
        r = subprocess.run([PY, 'seed_demo.py'], cwd=wt, env=env, capture_output=True, text=True, timeout=120)
        out['demo_patched_exit'] = r.returncode
        out['checks'] = {}
        for prop in props:
            cenv = dict(os.environ, VERIF_REPO=wt, VERIF_EVIDENCE_DIR=os.path.join(wt, '.evidence'),
                        VERIF_BUDGET_S=os.environ.get('VERIF_BUDGET_S', '40'))
            t0 = time.time()
            c = subprocess.run([PY, '-B', '/verif/run.py', 'check', prop, '--tier', 'quick'], env=cenv, capture_output=True, text=True)
            viol = [ln for ln in c.stdout.splitlines() if ln.startswith('VIOLATION') or ln.strip().startswith('signature=')]
            out['checks'][prop] = {'exit': c.returncode, 'wall_s': round(time.time() - t0, 1),
                                   'signatures': [ln.strip() for ln in viol if 'signature=' in ln][:6],
                                   'summary': [ln for ln in c.stdout.splitlines() if ln.startswith('SUMMARY')][-1:]}
        print(json.dumps(out, indent=1))
        return 0
    finally:
        subprocess.run(['git', '-C', '/repo', 'worktree', 'remove', '--force', wt], capture_output=True)
        shutil.rmtree(wt, ignore_errors=True)
        subprocess.run(['git', '-C', '/repo', 'worktree', 'prune'], capture_output=True)


if __name__ == '__main__':
    sys.exit(main())
