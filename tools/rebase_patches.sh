#!/bin/sh
# Re-base seeded/*/patch.diff and mutants/*.diff onto /repo HEAD when a later library repair changed their context:
# first a 3-way apply (the patches carry the blob ids they were made against), then `patch` with fuzz.
# Prints what it could not re-base; those need a hand.
WT=/dev/shm/rebase-wt-$$
git -C /repo worktree add --detach -f $WT HEAD >/dev/null 2>&1 || exit 2
cd $WT
for x in /verif/seeded/*/patch.diff /verif/mutants/*.diff; do
  git -C /repo apply --check "$x" 2>/dev/null && continue
  git reset -q --hard; git clean -fdq
  if git apply --3way "$x" >/dev/null 2>&1 && ! grep -rq '^<<<<<<<' src; then
    git diff HEAD > "$x.new"; mv "$x.new" "$x"; echo "rebased(3way) $x"
  else
    git reset -q --hard; git clean -fdq
    if patch -p1 --fuzz=3 -s < "$x" >/dev/null 2>&1; then
      find . -name '*.orig' -delete; git diff > "$x.new"; mv "$x.new" "$x"; echo "rebased(fuzz) $x"
    else
      echo "FAILED $x"
    fi
  fi
done
git reset -q --hard
cd /verif
git -C /repo worktree remove --force $WT
