#!/bin/sh
# soak: run every claimed check with other VERIF_SEED values against /repo; evidence goes to a scratch dir (not committed),
# alarms are collected in out/soak.log.   usage: soak.sh <first seed> <last seed> [budget_s] [props...]
first="${1:-2}"; last="${2:-5}"; budget="${3:-120}"
shift 3 2>/dev/null
props="$*"
[ -z "$props" ] && props=$(/venv/bin/python -c "import json;print(' '.join(c['property_id'] for c in json.load(open('/verif/MANIFEST.json'))['checks']))")
ev=$(mktemp -d /dev/shm/soak-ev.XXXXXX)
mkdir -p /verif/out
s=$first
while [ "$s" -le "$last" ]; do
  for p in $props; do
    VERIF_SEED=$s VERIF_BUDGET_S=$budget VERIF_EVIDENCE_DIR=$ev /venv/bin/python -B /verif/run.py check "$p" --tier thorough \
      | grep "SUMMARY\|VIOLATION\|HARNESS\|signature=" | sed "s/^/seed=$s /" | cut -c1-400 >> /verif/out/soak.log
  done
  s=$((s+1))
done
rm -rf "$ev"
echo "SOAK DONE $first..$last" >> /verif/out/soak.log
