#!/bin/sh
# run every claimed check of one tier in /verif against /repo; evidence/<ID>.json is rewritten by each
tier="${1:-quick}"
cd /verif
rc=0
for p in $(/venv/bin/python -c "import json;print(' '.join(c['property_id'] for c in json.load(open('/verif/MANIFEST.json'))['checks']))"); do
  /venv/bin/python -B /verif/run.py check "$p" --tier "$tier" | grep "SUMMARY\|VIOLATION\|KNOWN-FINDING\|HARNESS" | cut -c1-300
  r=$?
done
