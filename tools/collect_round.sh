#!/bin/sh
# usage: collect_round.sh <round> <ID>...   copy a sub-agent's deliveries from /tmp/seed-<ID>/seed_out into seeded/ and out/agent_notes<round>/
R=$1; shift
for p in "$@"; do
  for ab in A B; do d=/verif/seeded/$p-r$R$ab; mkdir -p $d; cp /tmp/seed-$p/seed_out/$ab.diff $d/patch.diff; cp /tmp/seed-$p/seed_out/demo_$ab.py $d/demo.py; cp /tmp/seed-$p/seed_out/$ab.md $d/notes.md; done
  mkdir -p /verif/out/agent_notes$R/$p; cp /tmp/seed-$p/seed_out/UNMODIFIED.md /tmp/seed-$p/seed_out/unmodified_*.py /tmp/seed-$p/seed_out/_*.py /verif/out/agent_notes$R/$p/ 2>/dev/null
done
