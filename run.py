#!/venv/bin/python
"""Entry point: run.py check <ID> --tier quick|thorough | replay <file> | one <ID> <seed> | selftest ... | setup"""
import os
import sys

REPO = os.environ.get('VERIF_REPO', '/repo')
sys.path.insert(0, os.path.dirname(os.path.abspath(__file__)))
sys.path.insert(0, os.path.join(REPO, 'src'))
os.environ.setdefault('NDN_VERIF_SIM', '1')
if os.environ.get('PYTHONHASHSEED') is None:
    os.environ['PYTHONHASHSEED'] = '0'
    os.execv(sys.executable, [sys.executable, '-B'] + sys.argv)
sys.dont_write_bytecode = True


def main(argv):
    if len(argv) < 2:
        print(__doc__)
        return 2
    cmd = argv[1]
    if cmd == 'setup':
        import ndn
        import simkit.runner  # noqa
        import engines  # noqa
        assert os.path.realpath(ndn.__file__).startswith(os.path.realpath(REPO)), ndn.__file__
        print('setup ok: ndn from', ndn.__file__)
        return 0
    if cmd == 'check':
        prop = argv[2]
        tier = os.environ.get('VERIF_TIER', 'quick')
        if '--tier' in argv:
            tier = argv[argv.index('--tier') + 1]
        from checks import run_check
        return run_check(prop, tier)
    if cmd == 'replay':
        from simkit import runner
        return runner.replay(argv[2])
    if cmd == 'one':
        from simkit import runner
        import json
        prop, seed = argv[2], int(argv[3])
        sc, res = runner.run_seed(prop, seed, 'quick', keep_events='-v' in argv)
        if '-s' in argv:
            print(json.dumps(sc, indent=1))
        if '-v' in argv:
            for e in res.events:
                print({k: (v.hex() if isinstance(v, bytes) else v) for k, v in e.items()})
        print(json.dumps(res.to_json(), indent=1, default=repr))
        return 0
    if cmd == 'selftest':
        from checks import selftest
        return selftest(argv[2:])
    print(__doc__)
    return 2


if __name__ == '__main__':
    try:
        rc = main(sys.argv)
    except SystemExit:
        raise
    except BaseException as e:
        import traceback
        traceback.print_exc()
        print(f'HARNESS-ERROR {type(e).__name__}: {e}')
        rc = 2
    sys.exit(rc)
