"""Per-property check descriptions (level, evidence rule, real/stub components) and self-tests."""
from simkit import runner

REAL_COMMON = ['asyncio Future/Task/wait_for/timeouts/sleep/Event/Semaphore/StreamReader (CPython 3.12)',
               'ndn.encoding (encoder, decoders, Name, TlvModel)', 'pygtrie']
STUB_COMMON = ['event-loop scheduler and monotonic clock (simkit.loop.SimLoop, virtual time)',
               'wall clock (ndn.utils.time rebinding)', 'nonce source (ndn.utils.randint rebinding)',
               'sockets and the remote peer (simkit.net)']

PIPE_REAL = REAL_COMMON + ['ndn.appv2.NDNApp', 'ndn.app.NDNApp', 'ndn.name_tree',
                           'ndn.transport.stream_face (TcpFace/UnixFace.run framing loop)',
                           'ndn.transport.udp_face', 'ndn.security signers/validators used by the scenarios']

PIPE_NOTE = ('Trusted: the simulator (SimLoop keeps asyncio FIFO order; time moves only by timer jumps and a per-scenario '
             'turn cost), the reference model in engines/pipeline_model.py, and - for deciding what a byte string addresses - '
             "ndn's own network-layer decoders. Sampled, not exhaustive; abstains within 1.5 ms of a deadline tie.")

ENGINES_META = [
    {'name': 'trustchain', 'path': 'engines/trustchain.py', 'serves_properties': ['C14'],
     'kind_free_text': 'lvs_validator/CascadeChecker instances on a v1 NDNApp, certificate-serving peer with fault policies, independent chain walker'},
    {'name': 'keychain', 'path': 'engines/keychain.py', 'serves_properties': ['C15'],
     'kind_free_text': 'KeychainSqlite3 + TpmFile over a fault-injecting storage seam; per-history enumeration of error and crash points'},
    {'name': 'sigs', 'path': 'engines/sigs.py', 'serves_properties': ['C02'],
     'kind_free_text': 'consumer + producer NDNApp joined by a simulated link with a corrupting middlebox; recording signers/verifiers'},
    {'name': 'clientconf', 'path': 'engines/clientconf.py', 'serves_properties': ['C20'],
     'kind_free_text': 'read_client_conf/default_face/default_keychain/NDNApp() over a fake Linux environment and simulated network'},
    {'name': 'svsnet', 'path': 'engines/svsnet.py', 'serves_properties': ['C18'],
     'kind_free_text': '2-4 real SvsInst nodes on their own NDNApps joined by a lossy simulated broadcast medium; per-node reference model; convergence probe'},
    {'name': 'svs', 'path': 'engines/svs.py', 'serves_properties': ['C18'],
     'kind_free_text': 'one real SvsInst on a v2 NDNApp, scripted peers, simulated wall clock and scripted timer randomness'},
    {'name': 'segfetch', 'path': 'engines/segfetch.py', 'serves_properties': ['C19'],
     'kind_free_text': 'real segment_fetcher on a v1 NDNApp against a scripted lossy producer'},
    {'name': 'registration', 'path': 'engines/registration.py', 'serves_properties': ['C17'],
     'kind_free_text': 'real NfdRegister / v1 register+unregister on a simulated face against a reactive fake NFD with scripted replies'},
    {'name': 'framing', 'path': 'engines/framing.py', 'serves_properties': ['C06'],
     'kind_free_text': 'real TcpFace/UnixFace.run() fed by a simulator-owned StreamReader; exhaustive cut/EOF positions for short streams'},
    {'name': 'pipeline', 'path': 'engines/pipeline.py', 'serves_properties': ['C03', 'C04', 'C05', 'C06', 'C10'],
     'kind_free_text': 'real NDNApp (ndn.app and ndn.appv2) on a direct or real Tcp/Unix/Udp face under a virtual-time '
                       'event loop; scripted peer, caller tasks, validators and handlers; reference-model oracle over the history'},
]

CHECKS = {
    'C03': dict(engine='pipeline', design_ref='5 (C03)', note=PIPE_NOTE,
                technique='deterministic simulation (virtual-time asyncio loop) + seeded schedule/fault search + reference-model oracle',
                text='Seeded search over interleavings of express/Data/Nack/timer/cancel/shutdown and validator latencies in both front-ends, decided by an executable PIT reference model over the recorded history (exactly-once, right outcome, no internal error, nothing left pending). Callers may await at once, late (up to three lifetimes after express()) or never; the system clock is stepped forwards and backwards while Interests are out, and such runs are judged like any other (a lifetime is a duration); streams die with EOF, reset, time-out, abort, broken pipe or unreachable host, run() of the face raises, a send() fails, the caller re-uses its name buffers after express(), asks for the raw packet, expresses the root prefix; a bare CancelledError out of an await nobody cancelled is a violation (a shutdown is reported as InterestCanceled, it does not cancel the caller). Sampling, not proof: right level because the property is quantified over schedules.',
                level='exploration', real=PIPE_REAL, stub=STUB_COMMON,
                rule='seed -> scripted scenario (1-7 Interests on colliding names, Data/Nack/cancel/shutdown events '
                     'aimed at the lattice around each deadline and validator completion); a run is non-trivial when '
                     'it has >=2 Interests/handlers and >=1 lattice-aimed event or fired fault; distinct = distinct '
                     'order signature (SHA-1 over the executed sequence of event kinds and entity indices)'),
    'C04': dict(engine='pipeline', design_ref='5 (C04)', note=PIPE_NOTE,
                technique='deterministic simulation (virtual-time asyncio loop) + seeded schedule/fault search + reference-model oracle',
                text='Seeded attach/detach histories and Interest arrivals against a dict model of longest-prefix dispatch; reply callbacks fired on a lattice around the Interest deadline (also after a step of the system clock, and after the face went down). In the legacy front-end handlers are also attached through register()/unregister() against a fake forwarder that acknowledges, refuses, nacks or ignores each command; prefixes are given as URI, component lists, wire bytes, bytearray, memoryview and read-only views over buffers the caller owns (overwritten once the call has returned), with long typed components. The simulated faces (direct face and stream peer) keep the buffers they are handed and re-check them at later sends and at the end of the run: a transport may queue what it is given without copying.',
                level='exploration', real=PIPE_REAL, stub=STUB_COMMON,
                rule='seed -> attach/detach history over a small prefix tree in random name representations, incoming '
                     'Interests at/below/above/beside prefixes, replies aimed at the lattice around the Interest '
                     'deadline; non-trivial: >=2 handlers/Interests and >=1 lattice event or fault; distinct = order signature'),
    'C05': dict(engine='pipeline', design_ref='5 (C05)', note=PIPE_NOTE,
                technique='deterministic simulation (virtual-time asyncio loop) + seeded schedule/fault search + reference-model oracle',
                text="Seeded search over validator verdicts and latencies (consumer) and parameter/signature/digest combinations (producer); oracle = payload only after an accepting run of that Interest's validator, failure shape, timeout when the validator outlives the deadline, handler only after digest + validator acceptance.",
                level='exploration', real=PIPE_REAL, stub=STUB_COMMON,
                rule='seed -> consumer scenarios with every validator verdict and latencies before/at/after the '
                     'deadline, producer scenarios with parameterised/signed Interests, correct and broken digests, '
                     'route validators of every verdict and shape (coroutine, callable returning a Future, raising, falsy callable object), several Interests pending in one PIT node with different validators; non-trivial and distinct as for C03'),
    'C06': dict(engine='pipeline', design_ref='5 (C06)', note=PIPE_NOTE,
                technique='deterministic simulation (virtual-time asyncio loop) + seeded schedule/fault search + reference-model oracle',
                text='Fault injection on the receive path: mutated/raw byte strings into a non-trivial app state on every face kind (no raise, no dead task, no collateral damage), and stream framing under exhaustively enumerated cut/EOF positions for short streams, EOF in the same wake-up as the last bytes, every kind of connection error, and a second connection on the same face object. Envelopes come with headers in and out of order, Sequence in front, Nack around Data, fragments; receive buffers are bytes, bytearray or memoryview. An element that overruns its parent and is acted upon is reported under the open finding C06:overrun-accepted.',
                level='exploration', real=PIPE_REAL, stub=STUB_COMMON,
                rule='3/4 of seeds: state-building ops, then mutated/raw/odd-envelope byte strings, then the legitimate '
                     'packets (all face kinds); 1/4 of seeds: stream framing with exhaustive cut and EOF positions for '
                     'short streams; non-trivial: >=2 entities and >=1 fired fault (robustness) or >=2 packets and a cut '
                     'inside a packet (framing); distinct = order signature'),
    'C10': dict(engine='pipeline', design_ref='5 (C10)', note=PIPE_NOTE,
                technique='deterministic simulation (virtual-time asyncio loop) + seeded schedule/fault search + reference-model oracle',
                text='Differential simulation: each scenario is executed with envelopes kept and stripped and compared observable by observable; Nack reasons (also absent), fragment rejection (every FragIndex/FragCount combination), out-of-order headers and PIT-token echo are checked with the independent TLV reader; buffers handed to the face are re-checked at later sends (a transport may queue them un-copied).',
                level='exploration', real=PIPE_REAL, stub=STUB_COMMON,
                rule='seed -> scenario executed twice (envelopes kept / stripped) and compared observable by '
                     'observable; Nack reasons up to 2^64-1, fragmented envelopes, PIT tokens of length 0-40 on several '
                     'Interests answered in scripted order; non-trivial: >=1 entity and >=1 wrapped packet; distinct = order signature'),
}


CHECKS['C17'] = dict(
    engine='registration', design_ref='5 (C17)', level='exploration',
    technique='deterministic simulation (virtual-time asyncio loop) + reactive fake forwarder with seeded reply/fault policies + protocol oracle',
    text='Seeded search over concurrent register/unregister calls, declared routes and reconnects against a fake NFD whose '
         'n-th reply is scripted (200/4xx/5xx with and without body, Nack, silence, garbage, delayed around the 1 s lifetime, '
         'duplicated); oracle checks one command per call, the command-Interest format of each front-end with the independent '
         'TLV reader, return value == status 200, one outstanding command at a time, strictly increasing timestamps (also across '
         'a reconnect), every declared route registered once on every connection that follows its declaration, and '
         'parse_response round trips. In a quarter of the runs the wall clock moves on between two consecutive reads; some runs '
         'make a call before the application connects, or drop the connection right after the last start-up command. The wall clock ticks every 1 to 50 ms; faces are local or not (/localhost vs /localhop); prefixes are up to 70000 octets long; a prefix may be declared twice; a reconnect may be a second run_forever(), i.e. a new event loop (emulated: loop-bound primitives held from the previous run are bound elsewhere). A route may be declared while the start-up registrations of earlier routes are on their way (one declaration, one command); one caller may give up (its task is cancelled) while its call is queued, waiting for a new clock reading or in flight - the calls behind it must still get through.',
    note='Trusted: SimLoop, the independent TLV reader/writer, the fake forwarder. Backward wall-clock steps are not generated '
         '(the statement quantifies over calls at the same clock reading, not over clock steps); forward ticks between reads are.',
    real=REAL_COMMON + ['ndn.transport.nfd_registerer.NfdRegister', 'ndn.appv2.NDNApp', 'ndn.app.NDNApp (register/unregister/route)',
                        'ndn.app_support.nfd_mgmt (make_command, make_command_v2, parse_response)', 'DigestSha256Signer'],
    stub=STUB_COMMON + ['the forwarder management module (engines/registration.py)'],
    rule='seed -> 1-8 register/unregister calls (many at the same instant), routes declared before/after connecting, optional '
         'reconnect, per-command reply policies; non-trivial: >=2 commands and >=1 fired fault; distinct = order signature of calls and commands')


CHECKS['C19'] = dict(
    engine='segfetch', design_ref='5 (C19)', level='exploration',
    technique='deterministic simulation (virtual-time asyncio loop) + scripted lossy producer + reference walk of the retry policy',
    text='Seeded search over object sizes (unsegmented, 1-12 segments), discovery answers (any segment / unsegmented), '
         'FinalBlockId placement and per-segment reply patterns (lost, Nack, duplicate, delayed around the lifetime, rejected '
         'by the validator); oracle = reference walk of the retry policy: exact yielded sequence, exact terminating '
         'exception, exact number of Interests the producer sees per segment (retry_times 0 to 4; the name given as string, list, wire, iterator or generator, or as the name of one segment; the object may be named by the root prefix, its Data carrying the empty name). In 30% of the runs two or three fetches of the '
         'same object, and plain consumers asking for its names, share one application and start at staggered times; there '
         'each fetch must still yield the object in order and completely, and must complete when no reply is lost or late.',
    note='Trusted: SimLoop, the scripted producer, the reference walk. Replies delayed to within 1.5 ms of (or beyond) the '
         'Interest lifetime only get the safety checks (in-order prefix, no skip, no duplicate). With several consumers on '
         'one application which reply answers whose Interest depends on the schedule: attempts are not counted there.',
    real=REAL_COMMON + ['ndn.app_support.segment_fetcher', 'ndn.app.NDNApp (express_interest pipeline)', 'ndn.name_tree'],
    stub=STUB_COMMON + ['the producer (engines/segfetch.py)'],
    rule='seed -> object + discovery answer + per-segment reply pattern relative to retry_times (incl. exactly retry_times-1, '
         'retry_times, retry_times+1 consecutive losses); non-trivial: >=2 segments and >=1 fired fault; distinct = order '
         'signature of requests and yields')


CHECKS['C18'] = dict(
    engine='svs', design_ref='5 (C18)', level='exploration',
    technique='deterministic simulation (virtual-time asyncio loop, simulated wall clock, scripted timer randomness) + '
              'reference state-vector model stepped with the same events',
    text='Seeded search over sequences of received vectors (newer, older, incomparable, over-claiming, malformed in 8 ways), '
         'vectors listing a node twice, node ids in non-minimal TLV encoding, local publications (also while stopped), start/stop/back-to-back restart, intervals with the face down, raising application callbacks, sequence numbers up to 2**63, an over-claiming vector heard again byte for byte after the node has caught up with the claim, placed relative to the suppression timer the instance will sample; oracle = '
         'entry-wise-max model checked after every handled Interest, monotonicity checked after every loop step, callback iff '
         'an entry was raised, publication emits the full vector promptly, suppression end emits iff local is newer than the '
         'merge of the vectors heard, and every emitted sync Interest has exactly one cause.',
    note='Trusted: SimLoop, the independent TLV reader/writer, the reference model. Vectors with a malformed entry among '
         'valid ones are judged only for consistency (no raise, callback iff raised, no partial merge without callback); '
         'the periodic (steady-state) timer is exercised but its emissions are not judged.',
    real=REAL_COMMON + ['ndn.app_support.svs.sync.SvsInst', 'ndn.app_support.svs.tlv', 'ndn.appv2.NDNApp (handler dispatch, signed-Interest validation)'],
    stub=STUB_COMMON + ['sync.time (simulated wall clock, 1 us granularity)', 'sync.secrets (scripted 16-bit sequence)', 'the sync group peers (scripted vectors)'],
    rule='5/6 of seeds: one instance, start + 2-10 events (vectors / publications / stop,start) aimed into the suppression window '
         '(non-trivial: >=2 vectors and >=1 completed suppression period); 1/6 of seeds: 2-4 real instances on a simulated '
         'broadcast medium with loss, duplication, delay and a partition that heals, 2-8 publications, every node judged by the '
         'same reference model (non-trivial: >=2 publications and >=1 fired fault), convergence after the last fault counted '
         'as a probe; distinct = order signature of rx/publish/tx')


CHECKS['C20'] = dict(
    engine='clientconf', design_ref='5 (C20)', level='exploration',
    technique='simulated environment (fake file system, environment variables, sockets) + simulated network endpoints + reference resolver',
    text='The precedence product {env set/unset}^3 x {which candidate file exists} x {key present}^3 x {store location '
         'absent/existing/relative/missing}^2 (5120 combinations) is walked by consecutive seeds with seeded transports, '
         'file styles (comments, indentation with any white-space, upper case, values containing %, :, # and ;), store schemes, symbolic links, a directory at a candidate path; read_client_conf, default_keychain and the connection NDNApp() really attempts on '
         'the simulated network are compared with a 30-line reference resolver.',
    note='Trusted: the fake os/open seam, the reference resolver, SimLoop. There is no schedule in this property: the simulator '
         'contributes the environment/transport seams and the end-to-end observation of the endpoint. Abstains for URIs without host/path. '
         'File styles include comments, upper-case keys, blank-padded separators and indented key lines; store locations may be '
         'missing as given, relative to the file, and at the platform default (a fresh account).',
    real=['ndn.client_conf (read_client_conf, default_face, default_keychain)', 'ndn.platform.linux', 'ndn.platform.general',
          'ndn.appv2.NDNApp / ndn.app.NDNApp constructors and main_loop', 'UnixFace/TcpFace/UdpFace.open', 'configparser, urllib.parse'],
    stub=['os.environ / os.path.exists / expanduser / open (fake file system)', 'TpmFile and KeychainSqlite3 constructors (recording stand-ins)',
          'asyncio.open_connection / open_unix_connection / create_datagram_endpoint (simulated network)', 'event loop (SimLoop)'],
    rule='seed i -> combination i mod 5120 of the precedence product + seeded values; non-trivial: values come from >=2 '
         'different sources or a configuration file exists; distinct = order signature (hash of the scenario shape)')


CHECKS['C02'] = dict(
    engine='sigs', design_ref='5 (C02)', level='exploration',
    technique='two real applications on a simulated link with a corrupting middlebox (seeded single-byte, truncation and '
              'TLV-structural faults) + recording signer/verifier proxies + independent TLV reader as oracle',
    text='Every shipped signer (digest, HMAC, RSA, ECDSA with variable-length DER signatures, Ed25519, null, none) signs Data '
         'and parameterised/signed Interests between a consumer and a producer application in all four front-end pairings; the '
         'bytes handed to the signer and the bytes reported to the verifier are compared with the signed portion recomputed '
         'from the wire; one seeded mutation per packet in flight; acceptance must imply an unchanged signed portion and '
         'signature value; the parameters-digest check is compared with SHA-256(ApplicationParameters..end) on every Interest '
         'that crossed the link. Each mutated packet is also handed to parse + known-key verifier directly (the verifier on its own, '
         'without the front-end dropping the packet first); a packet accepted under another name than the signed one is reported whatever the edit was. One signer object per key signs all packets of a run; ECDSA packets are aimed at the 253 / 65536 Length boundaries so that the real signature, shorter than the reserved one, brings the outer Length back across; ECDSA signature values are re-encoded in flight ((r, n-s), non-minimal DER, long-form length, r+n) - acceptance of (r, n-s) is the open finding C02:...:signature-value-ecdsa-s-negated.',
    note='Trusted: the independent TLV reader (simkit/tlvref.py), pycryptodomex, SimLoop. The schedule dimension adds nothing to '
         'this property; the simulator contributes the corruption fault model and the end-to-end observation. Packets with an '
         'unrecognised element between SignatureInfo and SignatureValue are not judged (the two readings of "signed portion" differ).',
    real=REAL_COMMON + ['ndn.security.signer.* (all six signers)', 'ndn.security.validator.known_key_validator and digest_validator',
                        'ndn.appv2.NDNApp and ndn.app.NDNApp (express / handler dispatch / validation pipeline)'],
    stub=STUB_COMMON + ['ECDSA nonce source (seeded randfunc via sha256_ecdsa_signer.DSS rebinding)', 'the link and its corrupting middlebox'],
    rule='seed -> 1-5 flows (direction, signer, key, name, payload size class incl. 253/65536 boundaries, one mutation or none, '
         'matching or wrong-key verifier); non-trivial: >=1 mutated packet; distinct = order signature of flow kinds')


CHECKS['C15'] = dict(
    engine='keychain', design_ref='5 (C15)', level='fault_enumeration',
    technique='seeded operation histories + enumeration of three faults (I/O error with rollback, statement failure without '
              'rollback, crash) at every storage step of each sampled history (SQLite proxy connection, private-key file seam), '
              'reference-model oracle with adopt-and-repeat under faults',
    text='For each sampled history of keychain operations the fault-free run is checked operation by operation against a '
         'reference model (mapping views: iteration/len/in/[] agree and are scoped to their owner; at most one default per '
         'scope; deletes remove everything beneath incl. the private key file; every get_signer argument shape yields a signer '
         'whose signature verifies under the selected key and names the selected certificate). Then the history is re-run once '
         'per storage step with an I/O error there (SQLite rolls back), once with a "database is locked" style failure (the '
         'transaction stays open) and once with a crash there (all steps, capped at 200 points): untouched entities must be '
         'unchanged, the views must stay consistent, repeating the failed operation must complete it or refuse cleanly on a '
         'store that already shows its full effect, and afterwards no listed key may lack its private key. Operations include '
         'deletes through the Identity/Key views, default setters called with stale or foreign names, and Identity/Key objects the client keeps across later deletes and creations (a view stays scoped to the owner it was obtained for).',
    note="Trusted: SQLite's own atomicity (a crash = uncommitted work disappears; torn database pages are not injected, torn "
         'private-key files are), the reference model, pycryptodomex. RSA key generation is served from a committed key pool; EC '
         'key generation and ECDSA nonces use a seeded random source. str-typed key/cert names in sign_args are not generated.',
    real=['ndn.security.keychain.keychain_sqlite3 (KeychainSqlite3, Identity, Key, Certificate, INITIALIZE_SQL)', 'ndn.security.tpm.tpm_file.TpmFile',
          'ndn.security.tpm.tpm.Tpm.construct_key_name', 'ndn.app_support.security_v2 (self_sign, derive_cert)', 'ndn.security.signer (ECDSA, RSA, digest)',
          'ndn.encoding', 'SQLite 3 (real database file in a scratch directory under /dev/shm)'],
    stub=['sqlite3 module object inside keychain_sqlite3 (proxy connection counting/failing storage steps over a real connection)',
          'tpm_file.open / tpm_file.os.remove (fault-injecting wrappers over the real files)', 'RSA.generate (key pool), ECC.generate randfunc, ECDSA nonces, key-id bytes (seeded)',
          'wall clock (utils.time, security_v2.datetime)'],
    rule='seed -> history of 3-14 (thorough: 3-25) operations; evaluations = sampled histories, each run 1 + 3K times (K = its '
         'storage steps); non-trivial: >=3 operations and >=4 storage steps; distinct = hash of the operation-kind sequence')


CHECKS['C14'] = dict(
    engine='trustchain', design_ref='5 (C14)', level='exploration',
    technique='deterministic simulation of certificate retrieval (virtual-time loop, certificate-serving peer with per-name '
              'fault policies, store changes between validator instances) + independent chain walker as oracle',
    text='Generated certificate hierarchies (depth 1-4, EC, RSA and Ed25519 keys, real self_sign/derive_cert) with a matching Light '
         'VerSec schema compiled by the real compiler (also schemas whose key rule carries a component constraint); 1-3 lvs_validator / CascadeChecker instances created at scripted times, '
         'with the certificate store changing in between (withdrawn, replaced by an attacker\'s certificate); one deviation per '
         'run (forged signature in packet or certificate, substituted key, missing certificate, Nack, transient loss, issuer of '
         'the wrong shape or constraint value, unsigned/digest-signed packet, HMAC keyed with a certificate\'s public bits, loop, '
         'bad anchor, the connection going away during the chain fetch). The verdict of every instance must equal that of an '
         'independent walker: signing check at every link by an independent reader of the scenario schemas, signature verified '
         'with pycryptodomex over the independently computed signed portion, every certificate retrievable now.',
    note='Trusted: the independent reader of the (small, fixed) set of scenario schemas, pycryptodomex, the independent TLV '
         'reader, SimLoop. Transient faults are judged exactly per fetch attempt for validations that run alone; for '
         'overlapping validations and after the connection went away only safety is judged (never accept without a chain).',
    real=REAL_COMMON + ['ndn.app_support.light_versec (compiler, Checker, lvs_validator)', 'ndn.security.validator.cascade_validator',
                        'ndn.security.validator.known_key_validator, digest_validator.union_checker', 'ndn.app.NDNApp (express_interest pipeline used for certificate fetches)',
                        'ndn.app_support.security_v2 (self_sign, derive_cert)', 'ECDSA/RSA signers'],
    stub=STUB_COMMON + ['the certificate-serving network and its fault policies', 'ECDSA nonces (seeded)', 'security_v2.datetime (simulated clock)'],
    rule='seed -> hierarchy + schema + deviation + 1-3 validator instances + 1-9 validations + store changes; non-trivial: >=1 '
         'validation and (a deviation or >=2 instances); distinct = order signature of instance/store/validate/fetch events')


def run_check(prop, tier):
    if prop not in CHECKS:
        print(f'HARNESS-ERROR unknown or unclaimed property {prop}')
        return 2
    c = CHECKS[prop]
    return runner.check(prop, tier, c['level'], c['rule'], c['real'], c['stub'], c.get('assumptions', ()))


def selftest(args):
    import selftests
    return selftests.main(args)
