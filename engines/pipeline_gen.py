"""Scenario generators for the pipeline engine.  Each is a pure function rng -> scenario; the
generator carries the reference model's notion of deadlines along so that it can aim events at the
lattice around them (-1 ms, -few us, 0, +few us, +1 ms)."""

LATTICE = [-1000, -3, -2, -1, 0, 1, 2, 3, 1000]
LIFETIMES = [5, 10, 20, 50, 100, 400, 20, 50, 100, 400, 1, 0]
REPRS = ['uri', 'strlist', 'bytes', 'bytearray', 'memoryview', 'mixed', 'wire', 'wire_mv', 'ro_mv_ba', 'wire_ro_mv_ba']
NACK_REASONS = [0, 50, 100, 150, 151, 255, 256, 65535, 65536, 2 ** 32 - 1, 2 ** 32, 2 ** 64 - 1, 'none']       # 'none': a Nack header without NackReason element = reason None (0)
RESET_KINDS = ['reset', 'reset', 'timeout', 'abort', 'pipe', 'unreach']      # how a stream dies when it is not a clean EOF
V2_VERDICTS = ['PASS', 'ALLOW_BYPASS', 'FAIL', 'SILENCE', 'TIMEOUT']
V1_VERDICTS = ['PASS', 'ALLOW_BYPASS', 'TRUTHY_STR', 'FAIL', 'SILENCE', 'TIMEOUT', 'EMPTY']
LP_HDRS = [(0x10, 'aa'), (0x4f, ''), (0x51, '0000000000000001'), (0x032c, '0100'), (0x0330, '07'), (0x0340, '01'), (0x0344, '0000000000000009'),
           (0x0348, '0000000000000002'), (0x034c, ''), (0x0354, 'beef'), (0x0384, ''), (0x03a0, '00')]


def pick_weighted(rng, pairs):
    tot = sum(w for _v, w in pairs)
    x = rng.random() * tot
    for v, w in pairs:
        x -= w
        if x <= 0:
            return v
    return pairs[-1][0]


SPECIAL_COMPS = ['seg=0', 'seg=255', 'seg=256', 'v=1', 'v=65536', 't=1700000000000', 'off=0', 'seq=7', '32=meta', '%00', '%C3%A9',
                 'x%2Fy', '65535=zz', 'KEY', '8=', 'a-b_c.d~e',
                 # typed "number" components whose value is no legal number (9 bytes; thousands of bytes), long generic ones
                 '50=~rep:9:01', '50=~rep:1800:01', '54=~rep:2500:ff', '8=~rep:3000:41', '58=~rep:1790:7f']


def rand_name(rng, alphabet=('a', 'b', 'c'), lo=1, hi=3):
    name = [rng.choice(alphabet) for _ in range(rng.randint(lo, hi))]
    if name and rng.random() < 0.12:
        # typed / escaped / empty components now and then (as a suffix, so that names still collide and nest)
        name[-1] = rng.choice(SPECIAL_COMPS)
    return name


def base_config(rng, faces=(('direct', 60), ('tcp', 20), ('unix', 5), ('udp', 15)), fe=None):
    return {
        'frontend': fe or rng.choice(['v1', 'v2']),
        'face': pick_weighted(rng, list(faces)),
        'turn_cost_us': rng.choice([0, 0, 1, 1, 3]),
        'wall_gran_us': rng.choice([1000, 1000, 1000, 2000, 8000]),
        'debug_log': rng.random() < 0.25,
        'rx_buffer': rng.choice(['bytes', 'bytes', 'bytes', 'bytearray', 'memoryview']),
    }


class Builder:
    def __init__(self, rng, cfg):
        self.rng = rng
        self.cfg = cfg
        self.packets = {}
        self.ops = []
        self.next_pid = 1
        self.next_iid = 1
        self.next_hid = 1
        self.next_nonce = 5000
        self.lattice = 0
        self.faults = 0

    def pkt(self, spec):
        pid = self.next_pid
        self.next_pid += 1
        self.packets[str(pid)] = spec
        return pid

    def op(self, at, kind, **kw):
        d = {'at': max(0, int(at)), 'op': kind}
        d.update(kw)
        self.ops.append(d)
        return d

    def rx(self, at, pid, lp=None, transparent=False, **kw):
        ref = pid
        if lp is not None:
            ref = {'pid': pid, 'lp': lp}
            if transparent:
                ref['transparent'] = True
        extra = {}
        if self.cfg['face'] in ('tcp', 'unix'):
            r = self.rng
            if r.random() < 0.6:
                extra['cuts'] = [r.randint(0, 400) if r.random() < 0.5 else r.randint(0, 6) for _ in range(r.randint(1, 3))]
                if r.random() < 0.5:
                    extra['gap_us'] = r.choice([1, 2, 50])
        extra.update(kw)
        return self.op(at, 'rx', pkt=ref, **extra)

    def lat(self, t_center):
        self.lattice += 1
        return t_center + self.rng.choice(LATTICE)

    def scenario(self, seed, prop, **extra):
        self.ops.sort(key=lambda o: o['at'])
        sc = {'engine': 'pipeline', 'property': prop, 'seed': seed, 'config': self.cfg,
              'packets': self.packets, 'ops': self.ops,
              'meta': {'lattice': self.lattice, 'faults': self.faults}}
        sc.update(extra)
        return sc


def rand_lp(rng, token=None, allow_token_on=False):
    hdr = [h for h in LP_HDRS if rng.random() < 0.3]
    rep = [h for h in hdr if h[0] in (0x0344, 0x0354, 0x0384, 0x03a0)]
    if rep and rng.random() < 0.3:
        # Ack is repeatable, and nothing forbids two unknown ignorable headers of one type
        h = rng.choice(rep)
        hdr += [(h[0], h[1][:-2] + '0a' if h[1] else '')] * rng.randint(1, 2)
    hdr.sort(key=lambda x: x[0])
    lp = {'hdr': [[t, v] for t, v in hdr]}
    if rng.random() < 0.08:
        # the fragmentation headers of a packet that is NOT fragmented, spelled out (fragment 0 of 1)
        lp['frag'] = rng.choice([[0, 1], [0, None], [None, 1]])
    if token is not None:
        lp['token'] = token
    elif allow_token_on and rng.random() < 0.3:
        lp['token'] = rand_token(rng)
    return lp


def rand_token(rng):
    n = rng.choice([0, 1, 4, 8, 8, 8, 16, 32, 33, 40])
    return bytes(rng.getrandbits(8) for _ in range(n)).hex()


def validator_spec(rng, fe, life_ms, accept_bias=0.7, late_bias=0.15):
    verdicts = V2_VERDICTS if fe == 'v2' else V1_VERDICTS
    if rng.random() < accept_bias:
        verdict = rng.choice(verdicts[:2] if fe == 'v2' else verdicts[:3])
    else:
        verdict = rng.choice(verdicts)
    x = rng.random()
    if x < 0.45:
        lat = 0
    elif x < 0.45 + late_bias:
        lat = life_ms * 1000 + rng.choice([1000, 2000, 5000, 20000])
    elif x < 0.75:
        lat = rng.choice([1, 10, 1000, 2000])
    else:
        lat = max(0, life_ms * 1000 + rng.choice(LATTICE))
    spec = {'verdict': verdict, 'latency_us': lat}
    if fe == 'v2' and rng.random() < 0.05:
        spec['raise'] = rng.choice(['timeout', 'cancel'])
    elif fe == 'v1' and rng.random() < 0.04:
        spec['raise'] = 'timeout'           # (the time-out of a certificate fetch inside the validator, not caught there)
    if rng.random() < 0.05:
        spec['falsy'] = True
    if rng.random() < 0.08:
        spec['shape'] = 'future'
    return spec


def add_consumer_side(b, rng, fe, n_int, focus='c03', lp_prob=0.1, transparent=False, nack_reasons=None):
    """Expresses + aimed Data / Nack / cancel / timeout events. Returns list of interest records."""
    alphabet = ('a', 'b') if rng.random() < 0.6 else ('a', 'b', 'c')
    ints = []
    t_cursor = 1000
    for _ in range(n_int):
        iid = b.next_iid
        b.next_iid += 1
        if ints and rng.random() < 0.35:
            prev = rng.choice(ints)
            name = list(prev['name']) if rng.random() < 0.6 else list(prev['name'][:-1]) or ['a']
        else:
            name = rand_name(rng, alphabet)
        cbp = rng.random() < 0.4
        if rng.random() < 0.03:
            name, cbp = [], True            # "whatever there is": the root prefix with CanBePrefix
        life = rng.choice(LIFETIMES)
        if ints and rng.random() < 0.4:
            te = rng.choice(ints)['te'] + rng.choice([0, 0, 1, 2, 1000])
        else:
            t_cursor += rng.randint(0, 20) * 1000
            te = t_cursor
        if focus == 'c05':
            vs = validator_spec(rng, fe, life, accept_bias=0.4, late_bias=0.25)
        else:
            vs = validator_spec(rng, fe, life, accept_bias=0.85, late_bias=0.08)
        if fe == 'v1' and rng.random() < 0.15:
            vs = None
        rec = {'id': iid, 'name': name, 'cbp': cbp, 'life': life, 'te': te, 'vs': vs, 'digest_of': None}
        if rng.random() < 0.1:
            rec['param_obj'] = True
        signed = focus == 'c03' and rng.random() < 0.1
        if signed:
            rec['app_param'] = rng.choice([0, 1, 20])
        dl = te + life * 1000
        fate = pick_weighted(rng, [('data', 40), ('nack', 15), ('timeout', 12), ('cancel', 13),
                                   ('data_nomatch', 10), ('nothing', 10)])
        # when
        how = pick_weighted(rng, [('edge', 35), ('mid', 35), ('immediate', 20), ('val', 10)])
        if how == 'edge':
            tf = b.lat(dl)
        elif how == 'immediate':
            tf = te + rng.choice([0, 1, 2, 3, 1000])
            b.lattice += 1
        else:
            tf = te + rng.randint(1, max(2, life * 1000 - 2000))
        tf = max(tf, te)
        dname = list(name)
        if fate in ('data', 'data_nomatch'):
            if fate == 'data':
                if cbp and rng.random() < 0.6:
                    dname = name + [rng.choice(alphabet) for _ in range(rng.randint(1, 2))]
            else:
                kind = rng.choice(['longer', 'shorter', 'sibling'] if not cbp else ['shorter', 'sibling'])
                if kind == 'longer':
                    dname = name + ['x']
                elif kind == 'shorter':
                    dname = name[:-1] or ['q']
                else:
                    dname = name[:-1] + ['zz']
            pid = b.pkt({'k': 'data', 'name': dname, 'content': 3 + b.next_pid, 'sig': rng.choice(['digest', 'digest', 'none'])})
            if rng.random() < 0.3:
                b.packets[str(pid)]['fresh'] = rng.choice([0, 0, 1, 1000])      # (no FreshnessPeriod at all is the default)
            if signed:
                # Data for a parameterised Interest carries the Interest's full name (plus a suffix with CanBePrefix)
                spec = b.packets[str(pid)]
                spec['reply_to'] = iid
                spec['name'] = dname[len(name):] if (fate == 'data' and len(dname) > len(name)) else ([] if fate == 'data' else ['zz'])
                if fate == 'data_nomatch' and rng.random() < 0.5:
                    spec.pop('reply_to')        # the plain name without the digest component: must not match
                    spec['name'] = list(name)
            if fate == 'data_nomatch' and not cbp and not signed and len(dname) > len(name) and dname[:len(name)] == name \
                    and rng.random() < 0.5:
                # the Interest carries the hash of a Data published under a LONGER name: without CanBePrefix no match
                rec['digest_of'] = pid
            if fate == 'data' and not cbp and not signed and rng.random() < 0.2:
                # implicit digest: matching or (other content under the same name) not matching
                if rng.random() < 0.6:
                    rec['digest_of'] = pid
                    if rng.random() < 0.5:
                        # a Data of the same name with another digest comes first: it must leave the Interest pending
                        wrong = b.pkt({'k': 'data', 'name': dname, 'content': 190 + b.next_pid, 'sig': 'digest'})
                        b.rx(max(te, tf - rng.choice([1, 1000])), wrong)
                else:
                    other = b.pkt({'k': 'data', 'name': dname, 'content': 90 + b.next_pid, 'sig': 'digest'})
                    rec['digest_of'] = other
            lp = rand_lp(rng, allow_token_on=True) if rng.random() < lp_prob else None
            b.rx(tf, pid, lp=lp, transparent=transparent)
            rec['data_pid'] = pid
            rec['t_data'] = tf
            # late duplicates / a second matching Data
            if rng.random() < 0.3:
                b.rx(tf + rng.choice([1, 2, 1000, life * 1000]), pid)
                b.faults += 1
        elif fate == 'nack' and signed:
            ipid = b.pkt({'k': 'interest_as_sent', 'iid': iid})
            b.rx(tf, ipid, lp={'nack': rng.choice(nack_reasons or [0, 50, 100, 150, 151, 'none'])})
        elif fate == 'nack':
            if not cbp and rng.random() < 0.2:
                # Interest carrying an implicit digest (of a Data that never arrives); the Nack names it in full
                rec['digest_of'] = b.pkt({'k': 'data', 'name': list(name), 'content': 70 + b.next_pid, 'sig': 'digest'})
            ipid = b.pkt({'k': 'interest', 'name': name, 'cbp': cbp, 'lifetime': life * 1000 // 1000,
                          'nonce': 1000 + iid, 'digest_of': None})
            reason = rng.choice(nack_reasons or [0, 50, 100, 150, 151, 'none'])
            b.rx(tf, ipid, lp={'nack': reason})
            rec['nack_pid'] = ipid
            if rng.random() < 0.3:
                b.rx(tf + rng.choice([1, 2, 1000]), ipid, lp={'nack': rng.choice([50, 100, 150])})
                b.faults += 1
        elif fate == 'cancel':
            b.op(tf, 'cancel', id=iid)
            b.faults += 1
            # something arrives for the cancelled Interest afterwards
            x = rng.random()
            if x < 0.45:
                ipid = b.pkt({'k': 'interest', 'name': name, 'cbp': cbp, 'lifetime': life, 'nonce': 1000 + iid})
                b.rx(tf + rng.choice([1, 2, 1000, 5000]), ipid, lp={'nack': rng.choice([50, 150])})
            elif x < 0.8:
                pid = b.pkt({'k': 'data', 'name': name, 'content': 3 + b.next_pid, 'sig': 'digest'})
                b.rx(tf + rng.choice([1, 2, 1000, 5000]), pid)
        ints.append(rec)
    # a second Interest on the name of one that is being validated (or has just been satisfied)
    for rec in list(ints):
        if 't_data' in rec and rng.random() < 0.3:
            iid = b.next_iid
            b.next_iid += 1
            life = rng.choice(LIFETIMES)
            te2 = rec['t_data'] + rng.choice([1, 2, 3, 1000, 2000])
            vs = validator_spec(rng, fe, life, accept_bias=0.9, late_bias=0.0)
            rec2 = {'id': iid, 'name': list(rec['name']), 'cbp': rec['cbp'], 'life': life, 'te': te2, 'vs': vs,
                    'digest_of': None}
            ints.append(rec2)
            b.lattice += 1
            if rng.random() < 0.7:
                pid = b.pkt({'k': 'data', 'name': list(rec['name']), 'content': 3 + b.next_pid, 'sig': 'digest'})
                b.rx(te2 + rng.randint(1000, max(1001, life * 1000 - 1500)), pid)
    for rec in ints:
        kw = {}
        if rec['digest_of'] is not None:
            kw['digest_of'] = rec['digest_of']
        if rec.get('app_param') is not None:
            kw['app_param'] = rec['app_param']
        if rec.get('param_obj'):
            kw['param_obj'] = True
        if rng.random() < 0.35:
            kw['mbf'] = True
        if rng.random() < 0.08:
            kw['name_buf'] = rng.choice(['bytearray', 'memoryview'])
        if rng.random() < 0.05:
            kw['send_fails'] = True         # the transport raises on this send (direct faces only)
        if fe == 'v1' and rng.random() < 0.25:
            kw['need_raw'] = True           # the caller asks for the received packet as well (a fourth result)
        if rec.get('app_param') is not None and rng.random() < 0.3:
            # the caller positions the parameters digest itself with a placeholder component (at the end or inside the name)
            kw['placeholder'] = rng.choice(['end', 'mid'])
        if rng.random() < 0.12 and rec['life'] >= 20:
            kw['await_delay_us'] = rng.choice([1, 1000, rec['life'] * 250, rec['life'] * 500, rec['life'] * 1500, rec['life'] * 3000])
        b.op(rec['te'], 'express', id=rec['id'], name=rec['name'], cbp=rec['cbp'], lifetime=rec['life'],
             validator=rec['vs'], **kw)
    # fix nack packets of digest-carrying Interests
    for rec in ints:
        if rec.get('nack_pid') and rec['digest_of'] is not None:
            b.packets[str(rec['nack_pid'])]['digest_of'] = rec['digest_of']
    return ints


def add_noise(b, rng, ints, horizon):
    """Nacks/Data nobody waits for, shutdown/EOF, wall jumps."""
    if rng.random() < 0.25:
        ipid = b.pkt({'k': 'interest', 'name': rand_name(rng, ('a', 'b', 'n')), 'nonce': 42, 'lifetime': 100})
        b.rx(rng.randint(500, horizon), ipid, lp={'nack': rng.choice([50, 100, 150])})
        b.faults += 1
    if rng.random() < 0.2:
        pid = b.pkt({'k': 'data', 'name': rand_name(rng, ('a', 'b', 'n')), 'content': 2, 'sig': 'digest'})
        b.rx(rng.randint(500, horizon), pid)
    x = rng.random()
    if x < 0.08:
        ts = rng.randint(1000, horizon)
        rxs = [o for o in b.ops if o['op'] == 'rx']
        if rxs and rng.random() < 0.3:
            ts = rng.choice(rxs)['at']      # in the very instant in which bytes arrive
        b.op(ts, 'shutdown')
        if ints and rng.random() < 0.5:
            # ... and, in the same instant, the caller gives up one of its Interests
            b.op(ts, 'cancel', id=rng.choice(ints)['id'])
        b.faults += 1
    elif x < 0.16:
        b.op(rng.randint(1000, horizon), rng.choice(['eof', 'reset']), exc=rng.choice(RESET_KINDS), crash=rng.random() < 0.3)
        b.faults += 1
    if rng.random() < 0.05:
        b.op(rng.randint(1000, horizon), 'wall_jump', delta_ms=rng.choice([-5000, -50, -1, 1, 50, 5000]))
        b.faults += 1
    late = [o for o in b.ops if o['op'] == 'express' and (o.get('await_delay_us') or 0) >= 1000]
    if late and rng.random() < 0.25:
        # the system clock is stepped while an Interest is out and its caller has not started to wait yet
        o = rng.choice(late)
        b.op(o['at'] + rng.randint(1, o['await_delay_us'] - 1), 'wall_jump',
             delta_ms=rng.choice([-5000, -400, -50, -20, 20, 50, 400, 5000]))
        b.faults += 1


def gen_c03(rng, seed, tier='quick'):
    cfg = base_config(rng)
    b = Builder(rng, cfg)
    ints = add_consumer_side(b, rng, cfg['frontend'], rng.randint(1, 6 if tier == 'quick' else 10), focus='c03')
    horizon = max(r['te'] + r['life'] * 1000 for r in ints)
    add_noise(b, rng, ints, horizon)
    return b.scenario(seed, 'C03')


# ----------------------------------------------------------------------------------------------
# producer side


def rand_reply_size(rng):
    # mostly small; sometimes across the 253-byte length boundary, around 4 KiB and 8 KiB (send paths that switch on size)
    x = rng.random()
    if x < 0.8:
        return rng.randint(0, 40)
    if x < 0.87:
        return rng.randint(200, 300)
    if x < 0.96:
        return rng.randint(3900, 4300)
    return rng.randint(7900, 8800)


def add_producer_side(b, rng, fe, focus='c04', tokens=False, lp_prob=0.1, transparent=False):
    alphabet = ('p', 'q') if rng.random() < 0.5 else ('p', 'q', 'r')
    n_pfx = rng.randint(1, 5)
    prefixes = []
    for _ in range(n_pfx):
        if prefixes and rng.random() < 0.5:
            base = rng.choice(prefixes)
            pfx = base + [rng.choice(alphabet)] if rng.random() < 0.7 else base[:-1]
        else:
            pfx = rand_name(rng, alphabet, 0 if rng.random() < 0.1 else 1, 3)
        prefixes.append(pfx)
    if rng.random() < 0.08:
        # a prefix that ends in an implicit digest component (a handler for one particular packet)
        k0 = rng.randrange(len(prefixes))
        prefixes[k0] = prefixes[k0] + ['1=~rep:32:ab']
    t = 1000
    attached = []
    n_ops = rng.randint(n_pfx, n_pfx + 10)
    app_validator = None
    if fe == 'v1' and rng.random() < 0.5:
        app_validator = {'verdict': rng.choice(V1_VERDICTS), 'latency_us': rng.choice([0, 0, 1000])}
        if rng.random() < 0.06:
            app_validator['falsy'] = True
    genuine = []
    for _ in range(n_ops):
        t += rng.choice([0, 1, 2, 1000, 3000, 10000])
        x = rng.random()
        if x < 0.35:
            pfx = rng.choice(prefixes)
            hid = b.next_hid
            b.next_hid += 1
            vs = None
            if focus == 'c05' or rng.random() < 0.3:
                if rng.random() < 0.8:
                    vs = {'verdict': rng.choice(V2_VERDICTS if fe == 'v2' else V1_VERDICTS),
                          'latency_us': rng.choice([0, 0, 1, 1000, 5000])}
                    if rng.random() < 0.08:
                        vs['raise'] = rng.choice(['timeout', 'cancel'])     # e.g. a certificate fetch inside it gave up
                    if rng.random() < 0.06:
                        vs['falsy'] = True
            replies = []
            if fe == 'v2':
                for _k in range(pick_weighted(rng, [(0, 20), (1, 60), (2, 20)])):
                    replies.append({'delay_us': None, 'content': rand_reply_size(rng)})
            elif rng.random() < 0.3:
                replies.append({'delay_us': rng.choice([0, 1000]), 'content': rand_reply_size(rng)})
            aop = b.op(t, 'attach', hid=hid, prefix=pfx, repr=rng.choice(REPRS), validator=vs, replies=replies)
            if rng.random() < 0.06 and aop is not None:
                aop['falsy_handler'] = True
            attached.append(pfx)
        elif x < 0.5 and attached:
            pfx = rng.choice(attached if rng.random() < 0.8 else prefixes)
            b.op(t, 'detach', prefix=pfx, repr=rng.choice(REPRS))
        else:
            # incoming Interest at / below / above / beside a prefix
            pfx = rng.choice(prefixes)
            y = rng.random()
            if y < 0.3:
                name = list(pfx)
            elif y < 0.7:
                name = pfx + [rng.choice(alphabet + ('x',)) for _ in range(rng.randint(1, 2))]
            elif y < 0.85:
                name = pfx[:-1]
            else:
                name = pfx[:-1] + ['zz']
            if not name:
                name = [rng.choice(alphabet)]
            life = rng.choice([0, 1, 5, 10, 20, 50, 100, None]) if rng.random() < 0.9 else 4000
            nonce = b.next_nonce
            b.next_nonce += 1
            spec = {'k': 'interest', 'name': name, 'nonce': nonce, 'lifetime': life,
                    'cbp': rng.random() < 0.3, 'mbf': rng.random() < 0.3}
            if focus == 'c05' or rng.random() < 0.15:
                z = rng.random()
                if z < 0.3:
                    spec['app_param'] = rng.choice([0, 1, 10, 300])
                elif z < 0.75:
                    spec['sig'] = rng.choice(['digest', 'hmac', 'digest'])
                    spec['app_param'] = rng.choice([0, 5, 260])
                    if rng.random() < 0.12:
                        spec['no_sigvalue'] = True      # SignatureInfo without SignatureValue: still a signed Interest
                if 'app_param' in spec and rng.random() < 0.08:
                    spec['no_digest_comp'] = True       # parameters (and signature) but no digest component in the name
                if ('app_param' in spec) and rng.random() < 0.3:
                    spec['bad_digest'] = True
                elif ('app_param' in spec) and genuine and rng.random() < 0.3:
                    # same name and digest component as an earlier genuine Interest, other parameters
                    donor = rng.choice(genuine)
                    spec['name'] = list(b.packets[str(donor)]['name'])
                    spec['app_param'] = (b.packets[str(donor)].get('app_param') or 0) + 1
                    spec['digest_from'] = donor
                    spec['bad_digest'] = 'reused'
            pid = b.pkt(spec)
            if 'app_param' in spec and not spec.get('bad_digest') and 'sig' not in spec:
                genuine.append(pid)
            lp = None
            if tokens and rng.random() < 0.7:
                lp = rand_lp(rng, token=rand_token(rng))
            elif rng.random() < lp_prob:
                lp = rand_lp(rng)
            op = b.rx(t, pid, lp=lp, transparent=transparent)
            op['_life'] = life
    # the routing table changes while the validator of an Interest that already arrived is still running
    if rng.random() < (0.3 if focus == 'c05' else 0.1):
        slow = [o for o in b.ops if o['op'] == 'attach' and o.get('validator')]
        rng.shuffle(slow)
        for a in slow:
            pfx = a['prefix']
            cands = []
            for o in b.ops:
                if o['op'] != 'rx' or o['at'] < a['at'] or isinstance(o['pkt'], dict) and o['pkt'].get('lp', {}).get('frag'):
                    continue
                pid = o['pkt']['pid'] if isinstance(o['pkt'], dict) else o['pkt']
                spec = b.packets[str(pid)]
                if spec.get('k') == 'interest' and ('sig' in spec or (fe == 'v2' and 'app_param' in spec)) \
                        and not spec.get('bad_digest') and spec['name'][:len(pfx)] == pfx:
                    cands.append((o, spec))
            if not cands:
                continue
            o, spec = rng.choice(cands)
            a['validator'] = dict(a['validator'], latency_us=rng.choice([2000, 5000]))
            a['validator'].pop('raise', None)
            tmid = o['at'] + a['validator']['latency_us'] // 2
            hid = b.next_hid
            b.next_hid += 1
            other = {'verdict': 'FAIL' if a['validator'].get('verdict') in ('PASS', 'ALLOW_BYPASS', 'TRUTHY_STR') else 'PASS',
                     'latency_us': 0}
            if len(spec['name']) > len(pfx) and rng.random() < 0.5:
                b.op(tmid, 'attach', hid=hid, prefix=spec['name'][:len(pfx) + 1], repr='uri', validator=other, replies=[])
            else:
                b.op(tmid, 'detach', prefix=pfx, repr='uri')
                b.op(tmid, 'attach', hid=hid, prefix=pfx, repr='uri', validator=other, replies=[])
            b.lattice += 1
            break
    # reply delays relative to the Interest lifetime (lattice around the deadline)
    lifes = [o['_life'] for o in b.ops if o['op'] == 'rx' and '_life' in o]
    long_tail = False
    for o in b.ops:
        if o['op'] == 'attach':
            for rs in o['replies']:
                if rs['delay_us'] is None:
                    life = rng.choice(lifes) if lifes else 20
                    life_us = (life if life is not None else 4000) * 1000
                    w = rng.random()
                    if w < 0.35:
                        rs['delay_us'] = rng.choice([0, 0, 1, 1000])
                    elif w < 0.75:
                        rs['delay_us'] = max(0, life_us + rng.choice(LATTICE + [-2000, 2000, 5000]))
                        b.lattice += 1
                    else:
                        rs['delay_us'] = rng.randint(0, life_us * 2)
                    if rs['delay_us'] > 1_000_000:
                        long_tail = True
    for o in b.ops:
        o.pop('_life', None)
    return app_validator, long_tail


def gen_c04(rng, seed, tier='quick'):
    cfg = base_config(rng)
    b = Builder(rng, cfg)
    if cfg['frontend'] == 'v1' and rng.random() < 0.3:
        cfg['dispatcher'] = True
    appv, long_tail = add_producer_side(b, rng, cfg['frontend'], focus='c04', tokens=rng.random() < 0.3)
    if cfg['frontend'] == 'v1' and not cfg.get('dispatcher') and cfg['face'] == 'direct' and rng.random() < 0.4:
        cfg['nfd'] = True
        if rng.random() < 0.4:
            # the forwarder refuses / does not answer some commands: what is attached locally does not depend on that
            cfg['nfd_fail'] = [rng.choice(['ok', 'ok', 'status', 'nack', 'silence']) for _ in range(4)]
        for o in b.ops:
            if o['op'] == 'attach' and rng.random() < 0.5 and \
                    not any(x is not o and x['op'] in ('attach', 'detach') and x['prefix'] == o['prefix'] and abs(x['at'] - o['at']) < 3000
                            for x in b.ops) and \
                    not any(x['op'] == 'rx' and abs(x['at'] - o['at']) < 1500 for x in b.ops):
                # register(name, func): attaches the filter (one loop iteration after the call), then asks the forwarder
                o['via'] = 'register'
        for o in list(b.ops):
            if o['op'] == 'attach' and o.get('via') != 'register' and rng.random() < 0.25:
                # later: register(name, None) for the same prefix - only the command, nothing is attached or detached
                b.op(o['at'] + rng.choice([1000, 5000, 20000]), 'register_only', prefix=list(o['prefix']))
        for o in b.ops:
            if o['op'] == 'detach' and rng.random() < 0.6:
                # (unregister() removes the filter one loop iteration after the call: keep other table operations on
                # the same prefix a few ms away so that the order stays unambiguous)
                if not any(x is not o and x['op'] in ('attach', 'detach') and x['prefix'] == o['prefix'] and abs(x['at'] - o['at']) < 3000
                           for x in b.ops):
                    o['via'] = 'unregister'
                    # an Interest whose very name was already seen before the detach comes again afterwards
                    seen = [x for x in b.ops if x['op'] == 'rx' and x['at'] < o['at'] and not isinstance(x['pkt'], dict)
                            and b.packets[str(x['pkt'])].get('k') == 'interest'
                            and b.packets[str(x['pkt'])]['name'][:len(o['prefix'])] == o['prefix']]
                    if seen:
                        src = b.packets[str(rng.choice(seen)['pkt'])]
                        spec = dict(src)
                        spec['nonce'] = b.next_nonce
                        b.next_nonce += 1
                        b.rx(o['at'] + rng.choice([3000, 5000, 20000]), b.pkt(spec))
    if cfg.get('dispatcher'):
        appv = None
        for o in b.ops:
            if o['op'] == 'attach':
                o['validator'] = None
        for spec in b.packets.values():
            if spec.get('k') == 'interest':
                spec.pop('sig', None)
                spec.pop('app_param', None)
                spec.pop('bad_digest', None)
    horizon = max([o['at'] for o in b.ops] + [2000])
    if rng.random() < 0.1:
        b.op(rng.randint(1000, horizon), 'wall_jump', delta_ms=rng.choice([-5000, -50, 50, 5000]))
        b.faults += 1
    if not cfg.get('nfd') and not cfg.get('dispatcher') and rng.random() < 0.12:
        # the face goes down (application shutdown, or the peer closes) between an Interest and a reply still to come
        rxs = [o for o in b.ops if o['op'] == 'rx']
        t = (rng.choice(rxs)['at'] + rng.choice([0, 1, 500, 1500, 6000])) if rxs and rng.random() < 0.8 else rng.randint(1000, horizon)
        b.op(t, rng.choice(['shutdown', 'eof', 'reset']) if cfg['face'] in ('tcp', 'unix') else 'shutdown', exc=rng.choice(RESET_KINDS))
        b.faults += 1
    extra = {}
    if appv is not None:
        extra['app_int_validator'] = appv
    return b.scenario(seed, 'C04', **extra)


def gen_c05(rng, seed, tier='quick'):
    cfg = base_config(rng)
    b = Builder(rng, cfg)
    fe = cfg['frontend']
    extra = {}
    side = rng.random()
    if side < 0.6:
        add_consumer_side(b, rng, fe, rng.randint(1, 5 if tier == 'quick' else 9), focus='c05')
    if side >= 0.4:
        appv, _lt = add_producer_side(b, rng, fe, focus='c05')
        if appv is not None:
            extra['app_int_validator'] = appv
            if rng.random() < 0.3:
                # installed only after (some of) the routes: from then on it is the one in force for routes without their own
                horizon = max([o['at'] for o in b.ops] + [2000])
                extra['app_int_validator_at'] = rng.randint(1500, horizon)
    return b.scenario(seed, 'C05', **extra)


# ----------------------------------------------------------------------------------------------
# robustness (C06): state, then malformed input, then the legitimate packets


def rand_mutation(rng):
    t = pick_weighted(rng, [('flip', 40), ('trunc', 20), ('ins', 12), ('del', 12), ('set', 16)])
    if t == 'flip':
        return {'t': 'flip', 'off': rng.randint(0, 400) if rng.random() < 0.6 else rng.randint(0, 12),
                'x': 1 << rng.randint(0, 7)}
    if t == 'trunc':
        return {'t': 'trunc', 'n': rng.randint(0, 60) if rng.random() < 0.8 else rng.randint(0, 400)}
    if t == 'ins':
        return {'t': 'ins', 'off': rng.randint(0, 60),
                'hex': rng.choice(['00', 'fd', 'ff', '0800', '2100', 'fd0000', '1e00', 'fe00000001', '6400', '5000'])}
    if t == 'del':
        return {'t': 'del', 'off': rng.randint(0, 60), 'n': rng.randint(1, 4)}
    return {'t': 'set', 'off': rng.randint(0, 12) if rng.random() < 0.7 else rng.randint(0, 100),
            'v': rng.choice([0, 1, 5, 6, 7, 8, 0x50, 0x64, 0xfc, 0xfd, 0xfe, 0xff, rng.randint(0, 255)])}


RAW_JUNK = [
    '',                       # nothing (UDP: empty datagram)
    '64', '6400', '640150', '64025000', '6403500105', '64035001fd',
    '640362010a',             # LpPacket with only a PIT token
    '6405fd03200000',         # LpPacket with only a Nack header
    '6409fd032005fd03210132',   # Nack(reason 50) without fragment
    '05', '0500', '06', '0600', '0502', '050107', '0503070108', '0604070208',
    '07030801 61'.replace(' ', ''), 'fd', 'fe0000', 'ff', 'fdffff', '8000', 'fd03e800',
    '0505070308ff61', '06060704080561', '0507070508036162',
    '64075205000000000001', '640450020501', '6406500406020700',
    '05020700', '06020700', '0504070021 00'.replace(' ', ''),                     # packets with a zero-component Name
    '640ffd032005fd03210132500405020700',                                         # Nack for an Interest named "/"
    '6406500405020700', '640a6202aabb500405020700',                               # enveloped Interest named "/"
]


def gen_c06(rng, seed, tier='quick'):
    cfg = base_config(rng, faces=(('direct', 45), ('tcp', 20), ('unix', 5), ('udp', 30)))
    cfg['debug_log'] = rng.random() < 0.4
    b = Builder(rng, cfg)
    fe = cfg['frontend']
    extra = {}
    # 1. state: pending Interests with long-enough lifetimes, handlers
    ints = []
    if rng.random() < 0.85:
        n = rng.randint(1, 4)
        alphabet = ('a', 'b')
        for _ in range(n):
            iid = b.next_iid
            b.next_iid += 1
            name = rand_name(rng, alphabet)
            rec = {'id': iid, 'name': name, 'cbp': rng.random() < 0.4, 'life': rng.choice([100, 400]),
                   'te': 1000 + rng.randint(0, 3) * 1000,
                   'vs': {'verdict': 'PASS', 'latency_us': 0} if (fe == 'v2' or rng.random() < 0.7) else None}
            if rec['vs'] is not None and rng.random() < 0.15:
                # a validator that really suspends, now and then past the Interest's deadline
                rec['vs'] = {'verdict': 'PASS', 'latency_us': rng.choice([1000, rec['life'] * 500, rec['life'] * 1000 + 1000, rec['life'] * 1000 + 5000])}
            ints.append(rec)
            b.op(rec['te'], 'express', id=iid, name=name, cbp=rec['cbp'], lifetime=rec['life'], validator=rec['vs'])
        if rng.random() < 0.3:
            victim = rng.choice(ints)
            b.op(victim['te'] + rng.randint(1, 4000), 'cancel', id=victim['id'])
            victim['cancelled'] = True
            b.faults += 1
    handlers = []
    if rng.random() < 0.7:
        for _ in range(rng.randint(1, 3)):
            hid = b.next_hid
            b.next_hid += 1
            pfx = rand_name(rng, ('p', 'q'), 1, 2)
            if any(h['prefix'] == pfx for h in handlers):
                continue
            vs = {'verdict': 'PASS', 'latency_us': 0} if rng.random() < 0.5 else None
            replies = [{'delay_us': 0, 'content': 4}] if rng.random() < 0.5 else []
            b.op(1500 + hid, 'attach', hid=hid, prefix=pfx, repr='uri', validator=vs, replies=replies)
            handlers.append({'hid': hid, 'prefix': pfx, 'vs': vs})
    # 2. pool of valid packets to mutate
    pool = []
    for rec in ints:
        dname = rec['name'] + (['k'] if rec['cbp'] and rng.random() < 0.5 else [])
        rec['data_pid'] = b.pkt({'k': 'data', 'name': dname, 'content': 3 + b.next_pid,
                                 'sig': rng.choice(['digest', 'none', 'digest'])})
        pool.append(rec['data_pid'])
        rec['nack_pid'] = b.pkt({'k': 'interest', 'name': rec['name'], 'cbp': rec['cbp'], 'nonce': 1000 + rec['id'],
                                 'lifetime': rec['life']})
        pool.append({'pid': rec['nack_pid'], 'lp': {'nack': rng.choice([50, 150])}})
    for hd in handlers:
        nonce = b.next_nonce
        b.next_nonce += 1
        spec = {'k': 'interest', 'name': hd['prefix'] + ['i'], 'nonce': nonce, 'lifetime': 400}
        if rng.random() < 0.4:
            spec['app_param'] = rng.choice([0, 3])
            if rng.random() < 0.6:
                spec['sig'] = 'digest'
        hd['int_pid'] = b.pkt(spec)
        pool.append(hd['int_pid'])
        pool.append({'pid': hd['int_pid'], 'lp': {'token': rand_token(rng)}})
    if not pool or rng.random() < 0.3:
        pool.append(b.pkt({'k': 'data', 'name': ['u', 'v'], 'content': 5, 'sig': 'digest'}))
        pool.append(b.pkt({'k': 'interest', 'name': ['u', 'w'], 'nonce': 9, 'lifetime': 100, 'app_param': 2,
                           'sig': 'digest'}))
    # 3. malformed input
    t = 6000
    for _ in range(rng.randint(1, 10 if tier == 'quick' else 25)):
        t += rng.choice([0, 1, 1000, 2000])
        x = rng.random()
        if x < 0.55:
            base = rng.choice(pool)
            m = rand_mutation(rng)
            pid = b.pkt({'k': 'mut', 'base': base, 'm': m})
            b.rx(t, pid)
        elif x < 0.75:
            pid = b.pkt({'k': 'raw', 'hex': rng.choice(RAW_JUNK)})
            b.rx(t, pid)
        elif x < 0.85:
            pid = b.pkt({'k': 'raw', 'hex': bytes(rng.getrandbits(8) for _ in range(rng.randint(1, 40))).hex()})
            b.rx(t, pid)
        else:
            base = rng.choice(pool)
            bpid = base['pid'] if isinstance(base, dict) else base
            lp = rng.choice([{'frag': [0, 2]}, {'frag': [1, 3]}, {'frag': [None, 2]}, {'nofrag': True},
                             {'nofrag': True, 'token': 'aa'}, {'hdr': [[0x0355, '00']]}, {'hdr': [[0x63, '']]},
                             {'frag': [0, 1]}, {'frag': [1, 1]}, {'frag': [1, None]}, {'frag': [0, None]}, {'frag': [2, 0]},
                             {'frag': [None, 1]}, {'frag': [0, 2], 'hdr': [[0x51, '0000000000000001']]},
                             {'frag': [0, 1], 'hdr': [[0x51, '0000000000000002']]},
                             # a Nack header around whatever the pool offers (for a Data that is no Nack at all)
                             {'nack': 150}, {'nack': 'none'}, {'nack': 50, 'token': 'ab'},
                             # header fields out of order / behind the Fragment
                             {'token': 'aa', 'hdr': [[0x0340, '01']], 'order': 'reverse'}, {'nack': 150, 'order': 'nack_last'},
                             {'token': 'ab', 'order': 'frag_first'}, {'frag': [1, 2], 'token': 'cd', 'order': 'reverse'},
                             {'nack': 100, 'hdr': [[0x0340, '01']], 'order': 'reverse'}])
            b.rx(t, bpid, lp=lp)
        b.faults += 1
    # 4. the legitimate packets
    t += 2000
    for rec in ints:
        if rng.random() < 0.8:
            if rng.random() < 0.75:
                b.rx(t, rec['data_pid'])
            else:
                b.rx(t, rec['nack_pid'], lp={'nack': 150})
            t += rng.choice([0, 1, 1000])
    for hd in handlers:
        if rng.random() < 0.9:
            b.rx(t, hd['int_pid'])
            t += rng.choice([0, 1, 1000])
    if rng.random() < 0.08:
        # the application shuts the face down in the very instant in which bytes arrive (or one loop step later)
        rxs = [o for o in b.ops if o['op'] == 'rx']
        if rxs:
            b.op(rng.choice(rxs)['at'] + rng.choice([0, 0, 1]), 'shutdown')
            b.faults += 1
    return b.scenario(seed, 'C06', **extra)


# ----------------------------------------------------------------------------------------------
# link-layer transparency (C10)


def gen_c10(rng, seed, tier='quick'):
    cfg = base_config(rng)
    cfg['lp_oracle'] = 'ref'
    b = Builder(rng, cfg)
    fe = cfg['frontend']
    extra = {}
    ints = []
    if rng.random() < 0.75:
        ints = add_consumer_side(b, rng, fe, rng.randint(1, 4), focus='c03', lp_prob=0.85, transparent=True,
                                 nack_reasons=NACK_REASONS)
    if rng.random() < 0.75 or not ints:
        appv, _lt = add_producer_side(b, rng, fe, focus='c04', tokens=True, lp_prob=0.6, transparent=True)
        if appv is not None:
            extra['app_int_validator'] = appv
    horizon = max([o['at'] for o in b.ops] + [2000])
    # fragmented envelopes around packets that would otherwise matter: must have no effect at all
    rxs = [o for o in b.ops if o['op'] == 'rx']
    for o in rxs:
        if rng.random() < 0.15:
            ref = o['pkt']
            pid = ref['pid'] if isinstance(ref, dict) else ref
            if isinstance(ref, dict) and 'nack' in ref.get('lp', {}):
                continue
            lp = {'frag': rng.choice([[0, 2], [1, 2], [2, 5], [None, 3], [1, None], [1, 1], [3, 0], [0, 0], [2, 1]])}
            if rng.random() < 0.25 and b.packets[str(pid)].get('k') == 'data':
                lp = {'nack': rng.choice([50, 150, 'none'])}       # a Data inside a Nack envelope is no Nack and no Data
            elif rng.random() < 0.25:
                # the same packet in an envelope whose header fields are out of order (or behind the Fragment)
                lp = rng.choice([{'token': 'aa', 'hdr': [[0x0340, '01']], 'order': 'reverse'}, {'token': 'ab', 'order': 'frag_first'},
                                 {'nack': 150, 'order': 'nack_last'}, {'nack': 50, 'hdr': [[0x0340, '01']], 'order': 'reverse'}])
                lp = dict(lp)
            if rng.random() < 0.5:
                lp['token'] = rand_token(rng)
            if rng.random() < 0.4:
                lp['hdr'] = [[0x51, '%016x' % rng.randint(0, 9)]]       # Sequence, as real fragments carry it
            b.op(max(0, o['at'] - rng.choice([1, 1000, 3000])), 'rx', pkt={'pid': pid, 'lp': lp})
            b.faults += 1
    del horizon
    for o in b.ops:
        o.pop('gap_us', None)       # same-instant chunks only: both variants then share one timeline
    return b.scenario(seed, 'C10', **extra)


GENERATORS = {'C03': gen_c03, 'C04': gen_c04, 'C05': gen_c05, 'C06': gen_c06, 'C10': gen_c10}
