"""Signature engine (C02): a consumer application and a producer application (either front-end each)
joined by a link with a corrupting middlebox.  Every signer is wrapped in a recording proxy, every
verifier in a recording wrapper; the oracle recomputes the NDN-specified signed portions from the wire
with the independent reader."""
import asyncio
import copy
import hashlib
import json
import os

from simkit import tlvref
from simkit.core import World, HarnessError, innermost_ndn_frame, exc_brief
from simkit.net import DirectFace
from engines.pipeline import apply_mutation, _StubKeychain

import ndn.encoding as enc
from ndn import types as ndn_types
from ndn import security as sec

_POOL = None
SIGNERS = ['digest', 'hmac', 'rsa', 'ecdsa', 'ed25519', 'null', 'none']


def pool():
    global _POOL
    if _POOL is None:
        _POOL = json.load(open(os.path.join(os.path.dirname(os.path.dirname(os.path.abspath(__file__))), 'data', 'keypool.json')))
    return _POOL


class DssShim:
    """Cryptodome.Signature.DSS with a seeded random source (ECDSA nonces), so that wires replay exactly."""

    def __init__(self, srand):
        self.srand = srand

    def new(self, key, mode, encoding='binary', randfunc=None):
        from Cryptodome.Signature import DSS
        return DSS.new(key, mode, encoding, randfunc=self.srand.randfunc)


class RecordingSigner(enc.Signer):
    def __init__(self, inner, record):
        self.inner = inner
        self.record = record

    def write_signature_info(self, signature_info):
        return self.inner.write_signature_info(signature_info)

    def get_signature_value_size(self):
        return self.inner.get_signature_value_size()

    def write_signature_value(self, wire, contents):
        self.record.append(b''.join(bytes(c) for c in contents))
        return self.inner.write_signature_value(wire, contents)


def make_signer(kind, key_idx, for_interest):
    p = pool()
    kname = f'/keys/{kind}/{key_idx}'
    if kind == 'digest':
        return sec.DigestSha256Signer(for_interest=for_interest)
    if kind == 'null':
        return sec.NullSigner()
    if kind == 'hmac':
        return sec.HmacSha256Signer(kname, bytes.fromhex(p['hmac'][key_idx % len(p['hmac'])]['key']))
    if kind == 'rsa':
        return sec.Sha256WithRsaSigner(kname, bytes.fromhex(p['rsa'][key_idx % len(p['rsa'])]['prv']))
    if kind == 'ecdsa':
        return sec.Sha256WithEcdsaSigner(kname, bytes.fromhex(p['ec'][key_idx % len(p['ec'])]['prv']))
    if kind == 'ed25519':
        return sec.Ed25519Signer(kname, bytes.fromhex(p['ed'][key_idx % len(p['ed'])]['prv']))
    raise HarnessError(f'signer {kind}')



def _fit_body_len(build, body_len, fit, kind, key, for_interest):
    """Aim the packet at a Length boundary: the body length (content / parameters) for which the packet's outer Length,
    computed with the signer's RESERVED signature size, is `fit` - so that a signature shorter than reserved makes the
    encoder cut the packet back across the boundary. build(n, signer) -> wire."""
    probe = make_signer(kind, key, for_interest)
    w = build(body_len, probe)
    try:
        wb = bytes(w)
        _typ, vs, e = tlvref.single(wb)
        last = tlvref.elements(wb, vs, e)[-1]
        sig_len = last[3] - last[2]
        outer_len = e - vs
    except Exception:
        return body_len
    reserved = outer_len + probe.get_signature_value_size() - sig_len
    n = body_len + fit - reserved
    if n < 0:
        return body_len
    if (n >= 253) != (body_len >= 253):
        n -= 2                      # the body's own Length grows to three bytes
    return max(n, 0)

def make_checker(kind, key_idx, name_idx=None):
    """The library's matching verifier, legacy calling convention: async (name, sig_ptrs) -> bool
    (name_idx: the key NAME the verifier is built for, when it differs from the key material - a key that was replaced
    under its old name, or simply the wrong key file)"""
    p = pool()
    kname = f'/keys/{kind}/{key_idx if name_idx is None else name_idx}'
    if kind == 'digest':
        return sec.sha256_digest_checker
    if kind == 'hmac':
        return sec.HmacChecker.from_key(kname, bytes.fromhex(p['hmac'][key_idx % len(p['hmac'])]['key']))
    if kind == 'rsa':
        return sec.RsaChecker.from_key(kname, bytes.fromhex(p['rsa'][key_idx % len(p['rsa'])]['pub']))
    if kind == 'ecdsa':
        return sec.EccChecker.from_key(kname, bytes.fromhex(p['ec'][key_idx % len(p['ec'])]['pub']))
    if kind == 'ed25519':
        return sec.Ed25519Checker.from_key(kname, bytes.fromhex(p['ed'][key_idx % len(p['ed'])]['pub']))
    return None


# ---- TLV-level edits ------------------------------------------------------------------------

CONTAINERS = {5, 6, 7, 0x14, 0x16, 0x2c, 0x1c}


def tlv_tree(buf, start=0, end=None, depth=0):
    out = []
    for (t, s, v, e) in tlvref.elements(buf, start, end if end is not None else len(buf), strict=False):
        node = {'t': t, 'v': bytes(buf[v:e]), 'kids': None}
        if t in CONTAINERS and depth < 4:
            try:
                node['kids'] = tlv_tree(buf, v, e, depth + 1)
            except tlvref.TlvError:
                node['kids'] = None
        out.append(node)
    return out


def tree_bytes(nodes):
    out = b''
    for n in nodes:
        val = tree_bytes(n['kids']) if n['kids'] is not None else n['v']
        out += tlvref.tlv(n['t'], val)
    return out


def tree_paths(nodes, prefix=()):
    for i, n in enumerate(nodes):
        yield prefix + (i,)
        if n['kids'] is not None:
            yield from tree_paths(n['kids'], prefix + (i,))


def structural_edit(wire, m):
    """{'t':'tlv','edit':'dup'|'del'|'swap'|'ins'|'retype'|'empty', 'path': n, ...}: edit one element, lengths fixed up"""
    try:
        tree = tlv_tree(wire)
    except tlvref.TlvError:
        return wire
    paths = [p for p in tree_paths(tree) if len(p) >= 2] or list(tree_paths(tree))
    path = paths[m['path'] % len(paths)]
    parent = tree
    for i in path[:-1]:
        parent = parent[i]['kids']
    i = path[-1]
    e = m['edit']
    if e == 'dup':
        parent.insert(i, copy.deepcopy(parent[i]))
    elif e == 'del':
        del parent[i]
    elif e == 'swap' and len(parent) > 1:
        j = (i + 1) % len(parent)
        parent[i], parent[j] = parent[j], parent[i]
    elif e == 'ins':
        parent.insert(i + m.get('after', 0), {'t': m.get('typ', 0xf0), 'v': bytes.fromhex(m.get('hex', '')), 'kids': None})
    elif e == 'retype':
        parent[i]['t'] = m.get('typ', 0xf0)
    elif e == 'empty':
        parent[i]['kids'] = None
        parent[i]['v'] = b''
    elif e == 'extend':
        # append octets to a leaf value (e.g. behind a DER signature); enclosing lengths are fixed up
        node = parent[i]
        if node['kids'] is None:
            node['v'] = node['v'] + bytes.fromhex(m.get('hex', '00'))
        else:
            node['kids'].append({'t': 0xf0, 'v': bytes.fromhex(m.get('hex', '00')), 'kids': None})
    elif e == 'shorten':
        node = parent[i]
        if node['kids'] is None and node['v']:
            node['v'] = node['v'][:-1]
    return tree_bytes(tree)



_P256_N = 0xffffffff00000000ffffffffffffffffbce6faada7179e84f3b9cac2fc632551


def _der_int(x, pad=0):
    b = x.to_bytes(max(1, (x.bit_length() + 7) // 8), 'big')
    if b[0] & 0x80:
        b = b'\x00' + b
    b = b'\x00' * pad + b
    return b'\x02' + bytes([len(b)]) + b


def _ecdsa_alt(sig, how):
    """sig = DER SEQUENCE { INTEGER r, INTEGER s } (short form) -> another encoding, or None when sig is not of that shape"""
    try:
        if sig[0] != 0x30 or sig[1] != len(sig) - 2 or sig[2] != 0x02:
            return None
        lr = sig[3]
        r = int.from_bytes(sig[4:4 + lr], 'big')
        if sig[4 + lr] != 0x02 or 4 + lr + 2 + sig[5 + lr] != len(sig):
            return None
        sv = int.from_bytes(sig[6 + lr:], 'big')
    except IndexError:
        return None
    if not (0 < r < _P256_N and 0 < sv < _P256_N):
        return None
    if how == 'negs':
        body = _der_int(r) + _der_int(_P256_N - sv)
    elif how == 'padr':
        body = _der_int(r, 1) + _der_int(sv)
    elif how == 'pads':
        body = _der_int(r) + _der_int(sv, 1)
    elif how == 'r_plus_n':
        body = _der_int(r + _P256_N) + _der_int(sv)
    else:   # 'longlen'
        body = _der_int(r) + _der_int(sv)
        return b'\x30\x81' + bytes([len(body)]) + body
    if len(body) > 127:
        return None
    return b'\x30' + bytes([len(body)]) + body


def _is_negated_s(orig_sig, recv_sig):
    """recv_sig is exactly the canonical DER encoding of (r, n - s) for orig_sig = DER (r, s) on P-256"""
    if orig_sig is None or recv_sig is None:
        return False
    alt = _ecdsa_alt(bytes(orig_sig), 'negs')
    return alt is not None and alt == bytes(recv_sig)

def refix_params_digest(wire):
    """the parameters digest is not covered by the signature: a tamperer recomputes it"""
    try:
        p = tlvref.parse_interest(wire)
    except tlvref.TlvError:
        return wire
    if p.digest_portion is None or p.params_digest is None or len(p.params_digest) != 32:
        return wire
    idx = wire.find(p.params_digest)
    if idx < 0:
        return wire
    import hashlib as _h
    return wire[:idx] + _h.sha256(p.digest_portion).digest() + wire[idx + 32:]


_INT_ORDER = [0x07, 0x21, 0x12, 0x1e, 0x0a, 0x0c, 0x22, 0x24, 0x2c, 0x2e]


def _canonical_order(recv):
    idx = [_INT_ORDER.index(x[0]) for x in recv.els if x[0] in _INT_ORDER]
    return all(a < b for a, b in zip(idx, idx[1:]))


def mutate(wire, m):
    if m is None:
        return wire
    if m.get('refix'):
        m2 = dict(m)
        m2.pop('refix')
        return refix_params_digest(mutate(wire, m2))
    if m['t'] == 'name2ap':
        # the last name component (in front of the digest) is of type 36 = the type number of ApplicationParameters: moved
        # out of the Name it reads as a (second) ApplicationParameters element - the covered bytes stay the same
        try:
            tree = tlv_tree(wire)
        except tlvref.TlvError:
            return wire
        if len(tree) != 1 or tree[0]['t'] != 0x05 or not tree[0]['kids'] or tree[0]['kids'][0]['t'] != 0x07:
            return wire
        kids = tree[0]['kids']
        name = kids[0]
        if name['kids'] is None:
            return wire
        plain = [k for k in name['kids'] if k['t'] != 0x02]
        if not plain or plain[-1]['t'] != 0x24 or (name['kids'][-1]['t'] != 0x02 and name['kids'][-1] is not plain[-1]):
            return wire
        comp = plain[-1]
        name['kids'].remove(comp)
        ap_idx = next((i for i, k in enumerate(kids) if k['t'] == 0x24), None)
        if ap_idx is None:
            return wire
        kids.insert(ap_idx, {'t': 0x24, 'v': comp['v'], 'kids': None})
        return tree_bytes(tree)
    if m['t'] == 'digestlen':
        # the (unsigned) digest component changes its length and the neighbourhood makes up for it: k bytes cut from the digest
        # value, a new k-byte component right behind it (total Name length unchanged)
        try:
            tree = tlv_tree(wire)
        except tlvref.TlvError:
            return wire
        if len(tree) != 1 or tree[0]['t'] != 0x05 or not tree[0]['kids'] or tree[0]['kids'][0]['t'] != 0x07:
            return wire
        name = tree[0]['kids'][0]
        if name['kids'] is None:
            return wire
        pos = next((i for i, k in enumerate(name['kids']) if k['t'] == 0x02 and len(k['v']) == 32), None)
        if pos is None:
            return wire
        k = max(2, min(8, m.get('k', 4)))
        dig = name['kids'][pos]
        dig['v'] = dig['v'][:32 - k]
        name['kids'].insert(pos + 1, {'t': 0x08, 'v': bytes([0x41]) * (k - 2), 'kids': None})
        return tree_bytes(tree)
    if m['t'] == 'ap2name':
        # the ApplicationParameters element is moved into the Name (as its last component, in front of the digest): the
        # bytes the signature covers stay exactly the same, the name and the parameters of the Interest do not
        try:
            tree = tlv_tree(wire)
        except tlvref.TlvError:
            return wire
        if len(tree) != 1 or tree[0]['t'] != 0x05 or not tree[0]['kids'] or tree[0]['kids'][0]['t'] != 0x07:
            return wire
        kids = tree[0]['kids']
        name = kids[0]
        ap = next((k for k in kids if k['t'] == 0x24), None)
        if ap is None or name['kids'] is None:
            return wire
        kids.remove(ap)
        pos = next((i for i, k in enumerate(name['kids']) if k['t'] == 0x02), len(name['kids']))
        if pos != len(name['kids']) - 1 and pos != len(name['kids']):
            return wire             # only when the digest component is last: then the covered bytes keep their order
        name['kids'].insert(pos, {'t': 0x24, 'v': ap['v'], 'kids': None})
        # the tamperer recomputes the (unsigned) digest over what now follows the point where the parameters would start
        dig = next((k for k in name['kids'] if k['t'] == 0x02), None)
        si = next((i for i, k in enumerate(kids) if k['t'] == 0x2c), None)
        if dig is not None and si is not None:
            import hashlib as _h
            dig['v'] = _h.sha256(tree_bytes(kids[si:])).digest()
        return tree_bytes(tree)
    if m['t'] == 'namedigest':
        # one more ParametersSha256DigestComponent somewhere in the Name of an Interest (an Interest has at most one)
        try:
            tree = tlv_tree(wire)
        except tlvref.TlvError:
            return wire
        if len(tree) != 1 or tree[0]['t'] != 0x05 or not tree[0]['kids'] or tree[0]['kids'][0]['t'] != 0x07:
            return wire
        name = tree[0]['kids'][0]
        if name['kids'] is None:
            return wire
        val = bytes.fromhex(m.get('hex', '')) or bytes(32)
        if m.get('copy'):
            have = [k for k in name['kids'] if k['t'] == 0x02]
            if have:
                val = have[0]['v']
        name['kids'].insert(m.get('pos', 0) % (len(name['kids']) + 1), {'t': 0x02, 'v': val, 'kids': None})
        return tree_bytes(tree)
    if m['t'] == 'sigext':
        for is_int in (False, True):
            try:
                p = tlvref.parse_interest(wire) if is_int else tlvref.parse_data(wire)
            except tlvref.TlvError:
                continue
            if p.sig_value is not None:
                typ = tlvref.T_INT_SIG_VALUE if is_int else tlvref.T_SIG_VALUE
                old_el = tlvref.tlv(typ, p.sig_value)
                new_el = tlvref.tlv(typ, p.sig_value + bytes.fromhex(m.get('hex', '00')))
                idx = wire.rfind(old_el)
                if idx < 0:
                    return wire
                inner = wire[:idx] + new_el + wire[idx + len(old_el):]
                # fix the outer length
                t0, n1 = tlvref.dec_var(inner, 0, strict=False)
                _l, n2 = tlvref.dec_var(inner, n1, strict=False)
                return tlvref.tlv(t0, inner[n1 + n2:])
        return wire
    if m['t'] == 'insfront':
        # an ignorable (unknown, non-critical) element right in front of ApplicationParameters (Interest) / of the Name
        # (Data): outside every covered range, the packet means the same
        try:
            tree = tlv_tree(wire)
        except tlvref.TlvError:
            return wire
        if len(tree) != 1 or tree[0]['t'] not in (0x05, 0x06) or not tree[0]['kids']:
            return wire
        kids = tree[0]['kids']
        target = 0x24 if tree[0]['t'] == 0x05 else 0x07
        idx = next((i for i, k in enumerate(kids) if k['t'] == target), None)
        if idx is None:
            return wire
        kids.insert(idx, {'t': m.get('typ', 0xf0), 'v': bytes.fromhex(m.get('hex', '')), 'kids': None})
        return tree_bytes(tree)
    if m['t'] == 'sigalt':
        # another byte string in the place of an ECDSA signature value that denotes the same or a related (r, s):
        # (r, n - s), non-minimal DER integers, a long-form DER length, r + n. Nothing but SignatureValue (and Lengths) changes.
        for is_int in (False, True):
            try:
                p = tlvref.parse_interest(wire) if is_int else tlvref.parse_data(wire)
            except tlvref.TlvError:
                continue
            if not p.sig_value:
                continue
            alt = _ecdsa_alt(bytes(p.sig_value), m.get('how', 'negs'))
            if alt is None:
                return wire
            typ = tlvref.T_INT_SIG_VALUE if is_int else tlvref.T_SIG_VALUE
            old_el = tlvref.tlv(typ, p.sig_value)
            idx = wire.rfind(old_el)
            if idx < 0:
                return wire
            inner = wire[:idx] + tlvref.tlv(typ, alt) + wire[idx + len(old_el):]
            t0, n1 = tlvref.dec_var(inner, 0, strict=False)
            _l, n2 = tlvref.dec_var(inner, n1, strict=False)
            return tlvref.tlv(t0, inner[n1 + n2:])
        return wire
    if m['t'] == 'sigflip':
        # flip one byte inside the SignatureValue (nothing else changes)
        for is_int in (False, True):
            try:
                p = tlvref.parse_interest(wire) if is_int else tlvref.parse_data(wire)
            except tlvref.TlvError:
                continue
            if p.sig_value:
                idx = wire.rfind(p.sig_value)
                b = bytearray(wire)
                b[idx + m.get('off', 0) % len(p.sig_value)] ^= m.get('x', 1) or 1
                return bytes(b)
        return wire
    if m['t'] == 'tlv':
        return structural_edit(wire, m)
    if m['t'] == 'len':         # raw length byte +-1 somewhere in a TL header (no fix-up)
        try:
            els = list(_walk(wire))
        except tlvref.TlvError:
            return wire
        t, s, v, e = els[m['path'] % len(els)]
        b = bytearray(wire)
        b[v - 1] = (b[v - 1] + m.get('d', 1)) & 0xff
        return bytes(b)
    return apply_mutation(wire, m)


def _walk(buf, start=0, end=None, depth=0):
    for (t, s, v, e) in tlvref.elements(buf, start, end if end is not None else len(buf), strict=False):
        yield (t, s, v, e)
        if t in CONTAINERS and depth < 4:
            try:
                yield from _walk(buf, v, e, depth + 1)
            except tlvref.TlvError:
                pass


def parse_any(wire, is_interest):
    for strict in (True, False):
        try:
            if strict:
                return tlvref.parse_interest(wire) if is_interest else tlvref.parse_data(wire)
            # lenient: non-minimal numbers tolerated
            old = tlvref.dec_var
            try:
                tlvref.dec_var = lambda b, o, strict=True: old(b, o, False)
                return tlvref.parse_interest(wire) if is_interest else tlvref.parse_data(wire)
            finally:
                tlvref.dec_var = old
        except (tlvref.TlvError, KeyError, IndexError):
            continue
    return None


# ---- world ------------------------------------------------------------------------------------


class SigWorld(World):
    def __init__(self, scenario):
        super().__init__(scenario, max_steps=40000, max_time=60.0)
        self.set_ndn_log_level(False)
        import ndn.security.signer.sha256_ecdsa_signer as ecs
        self.seams.set(ecs, 'DSS', DssShim(self.srand))
        cfg = self.cfg
        self.cfe = cfg.get('consumer', 'v2')
        self.pfe = cfg.get('producer', 'v2')
        self.cface = DirectFace(lambda w: self._link('c2p', w))
        self.pface = DirectFace(lambda w: self._link('p2c', w))
        self.capp = self._mk_app(self.cfe, self.cface)
        self.papp = self._mk_app(self.pfe, self.pface)
        self.flows = {f['id']: f for f in scenario['ops']}
        self.inflight = {}          # direction -> flow id currently expecting the next packet
        self.checkers = {}
        self.harness_tasks = set()

    def _mk_app(self, fe, face):
        if fe == 'v2':
            from ndn import appv2
            return appv2.NDNApp(face=face)
        from ndn import app as appv1
        return appv1.NDNApp(face=face, keychain=_StubKeychain())

    # ---- the link with its corrupting middlebox ----------------------------------------------
    def _link(self, direction, wire):
        fid = self.inflight.get(direction)
        flow = self.flows.get(fid) if fid is not None else None
        dst = self.pface if direction == 'c2p' else self.cface
        out = wire
        if flow is not None and flow['mut_dir'] == direction and not flow.get('_mutated'):
            flow['_mutated'] = True
            flow['_orig'] = wire
            out = mutate(wire, flow.get('mutation'))
            flow['_recv'] = out
            if flow.get('mutation') is not None and out != wire:
                self.stats['fault.' + flow['mutation']['t'] + ('-' + flow['mutation'].get('edit', '') if flow['mutation']['t'] == 'tlv' else '')] += 1
            self.log('link', dir=direction, fid=fid, orig=wire, sent=out)
        else:
            self.log('link', dir=direction, fid=fid, orig=wire, sent=None)
        if flow is not None and flow.get('_recv') is out and out is not None:
            # the verifier clause on its own: the same verifier, asked directly (no application, no digest check in front)
            t_ = self.loop.create_task(self._direct_verify(flow, out))
            self.direct_tasks = getattr(self, 'direct_tasks', set())
            self.direct_tasks.add(t_)
        if flow is not None and flow.get('dup'):
            self.after(flow.get('delay_us', 10) + 5, dst.deliver, out)
        self.after((flow or {}).get('delay_us', 10), dst.deliver, out)

    async def _direct_verify(self, flow, wire):
        kind = flow['signer']
        if kind in ('none', 'null') or flow.get('verifier', 'match') != 'match':
            return
        kidx = flow['key']
        if (kind, kidx) not in self.checkers:
            self.checkers[(kind, kidx)] = make_checker(kind, kidx)
        checker = self.checkers[(kind, kidx)]
        if checker is None:
            return
        try:
            if wire[:1] == b'\x05':
                name, _p, _ap, sig = enc.parse_interest(wire)
            else:
                name, _mi, _c, sig = enc.parse_data(wire)
            styp = sig.signature_info.signature_type if sig.signature_info is not None else None
            if kind != 'digest' and (styp is None or _expected_type(kind) != styp):
                verdict = False
            elif kind == 'digest' and styp != enc.SignatureType.DIGEST_SHA256:
                verdict = False
            else:
                verdict = bool(await checker(name, sig))
        except Exception as e:
            self.log('direct', fid=flow['id'], verdict=None, exc=exc_brief(e))
            return
        self.log('direct', fid=flow['id'], verdict=verdict,
                 covered=b''.join(bytes(c) for c in (sig.signature_covered_part or [])),
                 dcovered=b''.join(bytes(c) for c in (sig.digest_covered_part or [])))

    # ---- validators ---------------------------------------------------------------------------
    def _wrap_checker(self, flow, fe, role):
        kind, kidx = flow['signer'], flow['key'] if flow.get('verifier', 'match') == 'match' else flow['key'] + 1
        nidx = flow['key'] if flow.get('verifier') == 'samename' else None
        if (kind, kidx, nidx) not in self.checkers:
            self.checkers[(kind, kidx, nidx)] = make_checker(kind, kidx, nidx)
        checker = self.checkers[(kind, kidx, nidx)]
        world = self

        async def run(name, sig):
            cov = b''.join(bytes(c) for c in (sig.signature_covered_part or []))
            dcov = b''.join(bytes(c) for c in (sig.digest_covered_part or []))
            styp = sig.signature_info.signature_type if sig.signature_info is not None else None
            if checker is None:
                verdict = (styp == enc.SignatureType.NULL) if kind == 'null' else (sig.signature_info is None)
            else:
                if kind != 'digest' and styp is not None and _expected_type(kind) != styp:
                    verdict = False
                else:
                    verdict = bool(await checker(name, sig))
                if kind == 'digest' and styp != enc.SignatureType.DIGEST_SHA256:
                    verdict = False        # the digest checker passes non-digest packets on; this flow demands a digest
            world.log('validate', fid=flow['id'], role=role, covered=cov, dcovered=dcov, verdict=verdict,
                      sig_value=None if sig.signature_value_buf is None else bytes(sig.signature_value_buf))
            return verdict

        if fe == 'v2':
            async def validator(name, sig, ctx):
                return ndn_types.ValidResult.PASS if await run(name, sig) else ndn_types.ValidResult.FAIL
        else:
            async def validator(name, sig):
                return await run(name, sig)
        return validator

    def signer_obj(self, kind, key, for_interest):
        """one signer object per key for the whole run, as an application keeps it (it signs packet after packet)"""
        cache = self.__dict__.setdefault('_signer_objs', {})
        k = (kind, key, for_interest)
        if k not in cache:
            cache[k] = make_signer(kind, key, for_interest)
        return cache[k]

    # ---- flows --------------------------------------------------------------------------------
    async def _flow(self, flow):
        fid = flow['id']
        src = flow
        if flow.get('same_as') is not None and flow['same_as'] in self.flows:
            src = self.flows[flow['same_as']]      # the same packet once more (same name, content, signer, key)
        name = [bytes(c) for c in tlvref.name_from_uri('/' + '/'.join(src['name']))]
        cfid = src['id']
        self.tok(f'F{flow["dir"][0]}{flow["signer"][:2]}')
        rec = []
        flow['_signed_bytes'] = rec
        if flow['dir'] == 'data':
            # producer answers with signed Data; the Data is what the middlebox touches
            signer = None if flow['signer'] == 'none' else RecordingSigner(self.signer_obj(flow['signer'], flow['key'], False), rec)
            content = bytes((i * 3 + cfid) & 0xff for i in range(src['content_len']))
            mi = enc.MetaInfo(content_type=src.get('ctype', 0), freshness_period=src.get('fresh'),
                              final_block_id=None if src.get('final') is None else bytes(tlvref.name_from_uri('/' + src['final'])[0]))
            if src.get('no_meta'):
                mi = None
            if src.get('fit') and signer is not None and not src.get('no_content'):
                n_fit = _fit_body_len(lambda n, sg: enc.make_data(name, mi, bytes(n), signer=sg), len(content), src['fit'],
                                      flow['signer'], flow['key'], False)
                content = bytes((i * 3 + cfid) & 0xff for i in range(n_fit))
            dwire = bytes(enc.make_data(name, mi, content if not src.get('no_content') else None, signer=signer))
            flow['_made'] = dwire

            def handler(*a, **k):
                self.log('producer-hit', fid=fid)
                self.inflight['p2c'] = fid
                self.pface.send(dwire)
            self._attach(self.papp, self.pfe, name, handler, None)
            validator = self._wrap_checker(flow, self.cfe, 'consumer')
            try:
                self.inflight['c2p'] = None
                if self.cfe == 'v2':
                    res = await self.capp.express(name, validator, lifetime=flow.get('lifetime', 20), nonce=900 + fid)
                    got = res[1]
                else:
                    res = await self.capp.express_interest(name, validator=validator, lifetime=flow.get('lifetime', 20), nonce=900 + fid,
                                                           need_raw_packet=bool(flow.get('need_raw')))
                    got = res[2]
                self.log('flow-done', fid=fid, out='accepted', content=None if got is None else bytes(got))
            except ndn_types.ValidationFailure:
                self.log('flow-done', fid=fid, out='rejected')
            except ndn_types.InterestTimeout:
                self.log('flow-done', fid=fid, out='timeout')
            except (ndn_types.InterestNack, ndn_types.InterestCanceled) as e:
                self.log('flow-done', fid=fid, out=type(e).__name__)
            except asyncio.CancelledError:
                raise
            except BaseException as e:
                self.log('flow-done', fid=fid, out='error', exc=exc_brief(e), where=innermost_ndn_frame(e))
            self._detach(self.papp, self.pfe, name)
        else:
            # consumer sends a parameterised / signed Interest; the Interest is what the middlebox touches
            signer = None if flow['signer'] == 'none' else RecordingSigner(self.signer_obj(flow['signer'], flow['key'], True), rec)
            app_param = bytes((i * 5 + fid) & 0xff for i in range(flow['app_param_len']))
            reached = []

            def handler(iname, *a, **k):
                reached.append([bytes(c) for c in iname])
                self.log('handler-reached', fid=fid, name=[bytes(c) for c in iname])
                data = bytes(enc.make_data([bytes(c) for c in iname], enc.MetaInfo(), b'ok', signer=sec.DigestSha256Signer()))
                self.inflight['p2c'] = None
                self.pface.send(data)
            validator = self._wrap_checker(flow, self.pfe, 'producer')
            attach_name = name
            if flow.get('placeholder_at') is not None:
                # a ParametersSha256Digest placeholder inside the name (the encoder fills it in): route = the part before it
                k = 2 + flow['placeholder_at'] % max(1, len(name) - 1)
                name = name[:k] + [tlvref.tlv(tlvref.T_PARAMS_DIGEST, bytes(32))] + name[k:]
                attach_name = name[:k]
            self._attach(self.papp, self.pfe, attach_name, handler, validator)

            async def accept_all_v2(n, s, c):
                return ndn_types.ValidResult.PASS

            async def accept_all_v1(n, s):
                return True
            self.inflight['c2p'] = fid
            try:
                ip = enc.InterestParam(lifetime=flow.get('lifetime', 20), nonce=900 + fid,
                                       can_be_prefix=flow.get('cbp', False), must_be_fresh=flow.get('mbf', False),
                                       hop_limit=flow.get('hop'))
                if flow.get('fit') and signer is not None:
                    n_fit = _fit_body_len(lambda n, sg: enc.make_interest(name, ip, bytes(n), signer=sg), len(app_param),
                                          flow['fit'], flow['signer'], flow['key'], True)
                    app_param = bytes((i * 5 + fid) & 0xff for i in range(n_fit))
                iwire, final_name = enc.make_interest(name, ip, app_param, signer=signer, need_final_name=True)
                iwire = bytes(iwire)
                flow['_made'] = iwire
                if self.cfe == 'v2':
                    await self.capp.express_raw_interest(final_name, ip, iwire, accept_all_v2)
                else:
                    await self.capp.express_raw_interest(final_name, ip, iwire, accept_all_v1)
                self.log('flow-done', fid=fid, out='answered')
            except ndn_types.InterestTimeout:
                self.log('flow-done', fid=fid, out='timeout')
            except (ndn_types.InterestNack, ndn_types.InterestCanceled, ndn_types.ValidationFailure) as e:
                self.log('flow-done', fid=fid, out=type(e).__name__)
            except asyncio.CancelledError:
                raise
            except BaseException as e:
                self.log('flow-done', fid=fid, out='error', exc=exc_brief(e), where=innermost_ndn_frame(e))
            flow['_reached'] = reached
            self._detach(self.papp, self.pfe, attach_name)
        self.inflight['c2p'] = None
        self.inflight['p2c'] = None

    def _attach(self, app, fe, name, handler, validator):
        if fe == 'v2':
            app.attach_handler(name, lambda n, ap, reply, ctx: handler(n), validator)
        else:
            app.set_interest_filter(name, lambda n, p, ap, **kw: handler(n), validator)

    def _detach(self, app, fe, name):
        try:
            if fe == 'v2':
                app.detach_handler(name)
            else:
                app.unset_interest_filter(name)
        except KeyError:
            pass

    async def _driver(self):
        await asyncio.sleep(0.001)
        for flow in self.scenario['ops']:
            await self._flow(flow)
            await asyncio.sleep(0.002)
        self.capp.shutdown()
        self.papp.shutdown()

    def execute(self, keep_events=False):
        try:
            def start():
                for coro in (self.capp.main_loop(), self.papp.main_loop(), self._driver()):
                    self.harness_tasks.add(self.loop.create_task(coro))
            self.loop.call_soon(start)
            limit = self.run()
            if not limit:
                self._judge()
            res = self.result(limit, keep_events)
            res.nontrivial = any(f.get('mutation') for f in self.scenario['ops'])
            return res
        finally:
            self.close()

    # ---- oracle -------------------------------------------------------------------------------
    def _judge(self):
        ev = self.events
        done = {e['fid']: e for e in ev if e['k'] == 'flow-done'}
        for flow in self.scenario['ops']:
            fid = flow['id']
            is_int = flow['dir'] == 'interest'
            d = done.get(fid)
            comp = f'{flow["signer"]}-{flow["dir"]}'
            fe = self.pfe if is_int else self.cfe
            if d is None:
                self.violate('C02', 'hang', comp, 'flow', f'flow {fid} never finished')
                continue
            if d['out'] == 'error':
                self.violate('C02', 'internal-error', comp, d.get('where', '?'), f'flow {fid} ended with {d.get("exc")}')
                continue
            made = flow.get('_made')
            orig = parse_any(made, is_int) if made is not None else None
            if orig is None:
                self.violate('C02', 'encoder-output', comp, 'make', f'flow {fid}: the independent reader cannot parse the produced packet')
                continue
            # (a) bytes handed to the signer == signed portion of the final wire
            if flow['signer'] != 'none':
                rec = flow['_signed_bytes']
                if len(rec) != 1:
                    self.violate('C02', 'signer-calls', comp, 'sign', f'flow {fid}: the signer was asked to sign {len(rec)} times')
                elif rec[0] != orig.signed_portion:
                    self.violate('C02', 'signed-bytes', comp, 'sign',
                                 f'flow {fid}: bytes handed to the signer ({len(rec[0])} B) differ from the signed portion '
                                 f'of the wire ({0 if orig.signed_portion is None else len(orig.signed_portion)} B)')
            if is_int and not tlvref.params_digest_ok(orig):
                self.violate('C02', 'digest-made-wrong', comp, 'make', f'flow {fid}: the produced Interest carries a wrong parameters digest')
            sent = flow.get('_recv')
            if sent is None:
                continue        # the packet of interest never crossed the link (e.g. the Interest was lost before)
            recv = parse_any(sent, is_int)
            mutated = sent != flow.get('_orig')
            vals = [e for e in ev if e['k'] == 'validate' and e['fid'] == fid]
            # (b) bytes reported to the verifier == signed portion of the received wire
            for v in vals:
                if recv is not None and recv.signed_portion is not None and recv.sig_value is not None \
                        and not getattr(recv, 'signed_ambiguous', False):
                    if v['covered'] != recv.signed_portion:
                        self.violate('C02', 'covered-bytes', comp, 'mutated' if mutated else 'clean',
                                     f'flow {fid}: signature_covered_part ({len(v["covered"])} B) differs from the signed '
                                     f'portion of the received wire ({len(recv.signed_portion)} B)')
                if is_int and recv is not None and recv.digest_portion is not None and v['dcovered'] != recv.digest_portion:
                    self.violate('C02', 'digest-covered-bytes', comp, 'mutated' if mutated else 'clean',
                                 f'flow {fid}: digest_covered_part differs from ApplicationParameters..end of the received wire')
            accepted = (d['out'] == 'accepted') if not is_int else bool(flow.get('_reached'))
            wrong_key = flow.get('verifier', 'match') != 'match' and flow['signer'] in ('hmac', 'rsa', 'ecdsa', 'ed25519')
            needs_validator = True
            if is_int and self.pfe == 'v1' and (flow['signer'] == 'none' or (recv is not None and recv.sig_info is None)):
                # legacy front-end: parameterised but unsigned (also: the signature was stripped in flight and the
                # unsigned digest recomputed) -> digest check only, by design
                needs_validator = False
            # (c) an unmodified packet is accepted by the matching verifier
            if not mutated:
                if wrong_key:
                    if accepted:
                        self.violate('C02', 'wrong-key-accepted', comp, fe, f'flow {fid}: verifier for another key accepted the packet')
                elif not accepted:
                    self.violate('C02', 'valid-rejected', comp, fe,
                                 f'flow {fid}: unmodified {flow["dir"]} signed with {flow["signer"]} was not accepted '
                                 f'(outcome {d["out"]}, validator verdicts {[v["verdict"] for v in vals]})')
                continue
            # (d) a packet that differs in its signed portion or signature value is never accepted
            if accepted:
                if recv is None:
                    self.ambiguous += 1
                    continue
                if is_int and recv.app_param is None and recv.sig_info is None:
                    # as received it is a plain Interest (the mutation removed/absorbed the elements that demand
                    # checking): nothing for a digest check or a verifier to look at
                    self.ambiguous += 1
                    continue
                if is_int and self.pfe == 'v1' and not _canonical_order(recv):
                    # elements out of order: whether the decoder still sees an InterestSignatureInfo (and so whether the
                    # legacy front-end, which checks only signed Interests, consults a verifier at all) is decoder
                    # strictness; the outcome equals stripping the signature, which that front-end permits by design
                    self.ambiguous += 1
                    continue
                if is_int and orig is not None and flow['signer'] not in ('null', 'none') \
                        and [c for c in recv.name if c[:1] != b'\x02'] != [c for c in orig.name if c[:1] != b'\x02'] \
                        and recv.signed_portion == orig.signed_portion and recv.sig_value == orig.sig_value:
                    self.violate('C02', 'forged-accepted', comp, 'name-changed',
                                 f'flow {fid}: a signed Interest was accepted under another name than the one that was signed: the '
                                 f'covered bytes are the same, the boundary between Name and parameters was moved in flight')
                    continue
                if is_int and recv.sig_info is not None and recv.app_param is None and orig is not None \
                        and orig.app_param is not None and flow['signer'] not in ('null', 'none'):
                    self.violate('C02', 'forged-accepted', comp, 'parameters-moved-into-name',
                                 f'flow {fid}: a signed Interest whose ApplicationParameters element was moved into its Name in '
                                 f'flight (same covered bytes, other name, no parameters) was accepted')
                    continue
                if is_int and recv.n_params_digest > 1 and orig is not None and orig.n_params_digest <= 1 \
                        and flow['signer'] not in ('null', 'none'):
                    self.violate('C02', 'forged-accepted', comp, 'extra-digest-component',
                                 f'flow {fid}: an Interest whose Name got a second ParametersSha256DigestComponent in flight '
                                 f'(so its name differs from the signed/expressed one) was accepted')
                    continue
                same = recv.signed_portion == orig.signed_portion and recv.sig_value == orig.sig_value
                if is_int:
                    same = same and tlvref.params_digest_ok(recv)
                if flow['signer'] == 'none' and not is_int:
                    continue            # unsigned Data: nothing protects it
                if flow['signer'] == 'null':
                    continue
                if is_int and not needs_validator:
                    if not tlvref.params_digest_ok(recv):
                        self.violate('C02', 'bad-digest-accepted', comp, fe,
                                     f'flow {fid}: Interest whose digest component does not match ApplicationParameters..end reached the handler')
                    continue
                if is_int and flow['signer'] == 'none':
                    if not tlvref.params_digest_ok(recv):
                        self.violate('C02', 'bad-digest-accepted', comp, fe,
                                     f'flow {fid}: Interest whose digest component does not match ApplicationParameters..end reached the handler')
                    continue
                if not same and not getattr(recv, 'signed_ambiguous', False):
                    what = 'signed portion' if recv.signed_portion != orig.signed_portion else \
                        ('signature value' if recv.sig_value != orig.sig_value else 'parameters digest')
                    if what == 'signature value' and _is_negated_s(orig.sig_value, recv.sig_value):
                        what = 'signature value ecdsa s negated'
                    self.violate('C02', 'forged-accepted', comp, what.replace(' ', '-'),
                                 f'flow {fid}: a {flow["dir"]} whose {what} differs from the packet signed with '
                                 f'{flow["signer"]} was accepted (mutation {flow.get("mutation")})')
        # (d') the verifier on its own (asked directly about the packet as received)
        for e in ev:
            if e['k'] != 'direct' or e.get('verdict') is None:
                continue
            flow = self.flows.get(e['fid'])
            if flow is None or flow.get('mutation') is None or flow.get('_recv') is None:
                continue
            is_int = flow['dir'] == 'interest'
            recv = parse_any(flow['_recv'], is_int)
            orig = parse_any(flow['_orig'], is_int)
            if recv is None or orig is None or getattr(recv, 'signed_ambiguous', False):
                continue
            if is_int and not _canonical_order(recv):
                continue
            if recv.signed_portion is None or orig.signed_portion is None:
                continue
            # the ranges the parser reports, whether or not a front-end would have dropped the packet before any verifier saw
            # it: judged for packets whose elements are the original's plus, at most, ignorable (unknown, non-critical) ones
            o_types = [x[0] for x in orig.els]
            r_types = [x[0] for x in recv.els if x[0] in o_types or not (x[0] >= 32 and x[0] % 2 == 0)]
            if r_types == o_types and recv.sig_value is not None and e.get('covered') is not None:
                if e['covered'] != recv.signed_portion:
                    self.violate('C02', 'covered-bytes', f'{flow["signer"]}-{flow["dir"]}', 'parser-alone',
                                 f'flow {e["fid"]}: signature_covered_part of the parsed packet ({len(e["covered"])} B) differs from the '
                                 f'signed portion of the received wire ({len(recv.signed_portion)} B) (mutation {flow.get("mutation")})')
                if is_int and recv.digest_portion is not None and e.get('dcovered') is not None \
                        and e['dcovered'] != recv.digest_portion:
                    self.violate('C02', 'digest-covered-bytes', f'{flow["signer"]}-{flow["dir"]}', 'parser-alone',
                                 f'flow {e["fid"]}: digest_covered_part of the parsed packet differs from ApplicationParameters..end '
                                 f'of the received wire (mutation {flow.get("mutation")})')
            if not e['verdict']:
                continue
            if recv.signed_portion != orig.signed_portion or recv.sig_value != orig.sig_value:
                what = 'signed-portion' if recv.signed_portion != orig.signed_portion else 'signature-value'
                if what == 'signature-value' and _is_negated_s(orig.sig_value, recv.sig_value):
                    what = 'signature-value-ecdsa-s-negated'
                self.violate('C02', 'forged-accepted', f'{flow["signer"]}-{flow["dir"]}', 'verifier-alone-' + what,
                             f'flow {e["fid"]}: the matching verifier, asked directly, accepted a {flow["dir"]} whose '
                             f'{what} differs from the signed packet (mutation {flow.get("mutation")})')
        # (e) params-digest check == SHA-256 rule, evaluated on every Interest that crossed the link
        for e in ev:
            if e['k'] == 'link' and e['dir'] == 'c2p' and e['sent'] is not None:
                self._digest_rule(e['sent'], e['orig'])

    def _digest_rule(self, wire, orig_wire):
        recv = parse_any(wire, True)
        if recv is None:
            return
        orig = parse_any(orig_wire, True)
        if orig is None or [x[0] for x in recv.els] != [x[0] for x in orig.els]:
            return          # elements added, removed or re-ordered: what "from ApplicationParameters to the end" means for a
            # packet that is not in canonical order is decoder strictness, not this property
        try:
            name, _p, ap, sig = enc.parse_interest(wire)
        except Exception:
            return
        if ap is None and sig.signature_info is None:
            return
        h = hashlib.sha256()
        cov, val = sig.digest_covered_part, sig.digest_value_buf
        lib_ok = bool(cov) and bool(val)
        if lib_ok:
            for blk in cov:
                h.update(blk)
            lib_ok = h.digest() == bytes(val)
        ref_ok = tlvref.params_digest_ok(recv)
        if lib_ok != ref_ok:
            self.violate('C02', 'digest-rule', 'params-sha256', 'accepts' if lib_ok else 'rejects',
                         f'parameters-digest check says {lib_ok} but SHA-256(ApplicationParameters..end) '
                         f'{"equals" if ref_ok else "differs from"} the digest component')


def _expected_type(kind):
    return {'hmac': enc.SignatureType.HMAC_WITH_SHA256, 'rsa': enc.SignatureType.SHA256_WITH_RSA,
            'ecdsa': enc.SignatureType.SHA256_WITH_ECDSA, 'ed25519': enc.SignatureType.ED25519,
            'digest': enc.SignatureType.DIGEST_SHA256, 'null': enc.SignatureType.NULL}.get(kind)


# ---- generation ---------------------------------------------------------------------------------


def rand_mut(rng):
    x = rng.random()
    if x < 0.3:
        return {'t': 'flip', 'off': rng.randint(0, 600), 'x': 1 << rng.randint(0, 7)}
    if x < 0.4:
        return {'t': 'trunc', 'n': rng.randint(1, 400)}
    if x < 0.48:
        return {'t': 'set', 'off': rng.randint(0, 300), 'v': rng.choice([0, 1, 0x17, 0x16, 0xfd, 0xff, rng.randint(0, 255)])}
    if 0.54 <= x < 0.56:
        return {'t': 'insfront', 'typ': rng.choice([0xf0, 0xf2, 0x80, 0xfd00]), 'hex': rng.choice(['', '00', 'abcd'])}
    if 0.56 <= x < 0.58:
        return {'t': 'sigalt', 'how': rng.choice(['negs', 'negs', 'padr', 'pads', 'r_plus_n', 'longlen']), 'refix': True}
    if x < 0.58:
        return {'t': 'len', 'path': rng.randint(0, 40), 'd': rng.choice([-1, 1])}
    if x < 0.66:
        return {'t': 'sigext', 'hex': rng.choice(['00', '0000', 'ff', '3000', 'deadbeef']), 'refix': True}
    if x < 0.71:
        return {'t': 'namedigest', 'pos': rng.randint(0, 6), 'hex': rng.choice(['', 'ab' * 32, 'cd' * 31]), 'copy': rng.random() < 0.3}
    if x < 0.75:
        return {'t': 'ap2name'}
    if x < 0.78:
        return {'t': 'digestlen', 'k': rng.choice([2, 3, 4, 8])}
    if x < 0.81:
        return {'t': 'name2ap', 'refix': True}
    edit = rng.choice(['dup', 'del', 'swap', 'ins', 'ins', 'retype', 'empty', 'extend', 'shorten'])
    m = {'t': 'tlv', 'edit': edit, 'path': rng.randint(0, 40)}
    if edit == 'extend':
        m['hex'] = rng.choice(['00', '0000', 'ff', '3000'])
    if rng.random() < 0.3:
        m['refix'] = True
    if edit == 'ins':
        m['typ'] = rng.choice([0xf0, 0xf2, 0xf1, 0x80, 0xfd00, 0x0f])
        m['hex'] = rng.choice(['', '00', 'abcd'])
        m['after'] = rng.choice([0, 1])
    if edit == 'retype':
        m['typ'] = rng.choice([0xf0, 0x15, 0x17, 0x08, 0x01, 0x02])
    return m


def generate(rng, seed, tier='quick'):
    cfg = {'consumer': rng.choice(['v1', 'v2']), 'producer': rng.choice(['v1', 'v2']), 'turn_cost_us': rng.choice([0, 0, 1]),
           'wall_gran_us': 1000}
    flows = []
    heavy = rng.random() < 0.25
    for _i in range(rng.randint(1, 5)):
        i = len(flows)
        d = rng.choice(['data', 'data', 'interest'])
        signer = rng.choice(['digest', 'hmac', 'ecdsa', 'ecdsa', 'ed25519', 'null', 'none'] + (['rsa'] if heavy or rng.random() < 0.3 else []))
        if d == 'interest' and signer == 'null':
            signer = 'digest'
        size_cls = rng.random()
        if size_cls < 0.7:
            clen = rng.randint(0, 60)
        elif size_cls < 0.95:
            clen = rng.choice([200, 251, 252, 253, 254, 300, 1000])
        else:
            clen = rng.choice([65530, 65536, 70000])
        f = {'id': i + 1, 'dir': d, 'signer': signer, 'key': rng.randint(0, 2),
             'name': ['s', f'f{i}'] + [rng.choice(['a', 'b', 'c', 'seg=0', 'seg=256', 'v=1', 't=1700000000000', '%00', '%C3%A9', '32=x',
                                                    '65535=zz', '8=', 'KEY', 'x%2Fy']) for _ in range(rng.randint(0, 5))]
             + (['36=ab'] if d == 'interest' and rng.random() < 0.12 else []),
             'content_len': clen, 'app_param_len': rng.choice([0, 0, 1, 10, 252, 253, 300]) if d == 'interest' else 0,
             'mut_dir': 'p2c' if d == 'data' else 'c2p', 'lifetime': 20, 'delay_us': rng.choice([1, 10, 1000]),
             'need_raw': rng.random() < 0.25,
             'mutation': rand_mut(rng) if rng.random() < 0.75 else None,
             '_fixup': None,
             'verifier': 'match' if rng.random() < 0.86 else rng.choice(['wrongkey', 'samename'])}
        f.pop('_fixup')
        if f['name'][-1] == '36=ab' and rng.random() < 0.6:
            f['mutation'] = {'t': 'name2ap', 'refix': True}
        if rng.random() < 0.2:
            f['fresh'] = rng.choice([0, 1000, 2 ** 32])
        if d == 'data':
            if rng.random() < 0.15:
                f['ctype'] = rng.choice([1, 2, 3, 255, 65536])
            if rng.random() < 0.15:
                f['final'] = rng.choice(['seg=0', 'seg=255', 'seg=256', 'v=3', 'end'])
            if rng.random() < 0.05:
                f['no_meta'] = True
            if rng.random() < 0.05:
                f['no_content'] = True
        if d == 'interest':
            f['cbp'] = rng.random() < 0.3
            f['mbf'] = rng.random() < 0.3
            if rng.random() < 0.2:
                f['hop'] = rng.randint(0, 255)
        if rng.random() < 0.1:
            f['dup'] = True
        if signer == 'ecdsa' and rng.random() < 0.15:
            # aimed at a Length boundary: the outer Length computed with the reserved signature size lies just above it,
            # the real (shorter) signature brings it back below
            f['fit'] = rng.choice([253, 253, 254, 254, 255, 256, 65536, 65537])
            f['content_len'] = rng.randint(0, 30)
            if d == 'interest':
                f['app_param_len'] = rng.randint(0, 30)
        if d == 'interest' and rng.random() < 0.15:
            f['placeholder_at'] = rng.randint(0, 3)
        flows.append(f)
        if d == 'data' and signer in ('hmac', 'rsa', 'ecdsa', 'ed25519') and f['mutation'] is None and f['verifier'] == 'match' \
                and rng.random() < 0.5:
            # the genuine packet was accepted; now the same packet with another signature value, same verifier object
            g = dict(f)
            g['id'] = len(flows) + 1
            g['same_as'] = f['id']
            g['mutation'] = {'t': 'sigflip', 'off': rng.randint(0, 80), 'x': 1 << rng.randint(0, 7)}
            flows.append(g)
    return {'engine': 'sigs', 'property': 'C02', 'seed': seed, 'config': cfg, 'ops': flows}


def execute(sc, keep_events=False):
    sc = copy.deepcopy(sc)
    w = SigWorld(sc)
    return w.execute(keep_events)


def simplifications(sc):
    for key, val in (('turn_cost_us', 0),):
        if sc['config'].get(key) != val:
            c = copy.deepcopy(sc)
            c['config'][key] = val
            yield c
    for i, f in enumerate(sc['ops']):
        if f['content_len'] > 4:
            c = copy.deepcopy(sc)
            c['ops'][i]['content_len'] = 3
            yield c
        if f.get('app_param_len', 0) > 1:
            c = copy.deepcopy(sc)
            c['ops'][i]['app_param_len'] = 0
            yield c
        if len(f['name']) > 2:
            c = copy.deepcopy(sc)
            c['ops'][i]['name'] = f['name'][:2]
            yield c
        for k in ('dup', 'fresh', 'hop'):
            if k in f:
                c = copy.deepcopy(sc)
                del c['ops'][i][k]
                yield c
