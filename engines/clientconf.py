"""Client-configuration engine (C20): read_client_conf / default_face / default_keychain / NDNApp()
over a fake Linux environment (files, environment variables, store directories, NFD sockets) and the
simulated network, so that the endpoint the application really connects to is observed."""
import copy
import io
import posixpath

from simkit.core import World, HarnessError, innermost_ndn_frame, exc_brief
from simkit.net import StreamPeer, DatagramPeer

HOME = '/home/sim'
CONF_PATHS = [HOME + '/.ndn/client.conf', '/usr/local/etc/ndn/client.conf', '/opt/local/etc/ndn/client.conf',
              '/etc/ndn/client.conf']
DEFAULT_PIB_DIR = HOME + '/.ndn'
DEFAULT_TPM_DIR = HOME + '/.ndn/ndnsec-key-file'
KEYS = ['transport', 'pib', 'tpm']


class FakePath:
    def __init__(self, fs):
        self.fs = fs

    def _abs(self, p):
        # a relative path is looked up from the process's working directory; the path is walked physically:
        # a symbolic link is followed where it stands, and '..' then leaves the directory the link points to
        if not p.startswith('/'):
            p = posixpath.join(self.fs.cwd, p)
        links = getattr(self.fs, 'links', None) or {}
        cur = '/'
        for part in p.split('/'):
            if part in ('', '.'):
                continue
            if part == '..':
                cur = posixpath.dirname(cur)
                continue
            cur = posixpath.join(cur, part)
            for _ in range(8):
                if cur in links:
                    cur = links[cur]
                else:
                    break
        return cur

    def exists(self, p):
        p = self._abs(p)
        return p in self.fs.files or p in self.fs.dirs or p in self.fs.sockets

    def expanduser(self, p):
        if p == '~' or p.startswith('~/'):
            return HOME + p[1:]
        return p

    def expandvars(self, p):
        out = p
        for k, v in self.fs.env.items():
            out = out.replace('${' + k + '}', v).replace('$' + k, v)
        return out

    def isfile(self, p):
        p = self._abs(p)
        return p in self.fs.files or p in self.fs.sockets

    def isdir(self, p):
        return self._abs(p) in self.fs.dirs

    def getmtime(self, p):
        if not self.exists(p):
            raise FileNotFoundError(p)
        return float(self.fs.mtimes.get(p, 1_700_000_000))

    getctime = getmtime

    def getsize(self, p):
        if self._abs(p) in self.fs.files:
            return len(self.fs.files[self._abs(p)].encode())
        if not self.exists(p):
            raise FileNotFoundError(p)
        return 4096

    def abspath(self, p):
        return posixpath.normpath(p if p.startswith('/') else posixpath.join(self.fs.cwd, p))

    def realpath(self, p):
        return self._abs(p)

    def islink(self, p):
        return self.abspath(p) in (getattr(self.fs, 'links', None) or {})
    normpath = staticmethod(posixpath.normpath)
    split = staticmethod(posixpath.split)
    splitext = staticmethod(posixpath.splitext)
    join = staticmethod(posixpath.join)
    dirname = staticmethod(posixpath.dirname)
    basename = staticmethod(posixpath.basename)
    isabs = staticmethod(posixpath.isabs)


class FakeOs:
    def __init__(self, fs):
        self.fs = fs
        self.path = FakePath(fs)
        self.environ = fs.env
        self.sep = '/'

    def makedirs(self, *a, **k):
        raise OSError('read-only simulated file system')

    def stat(self, p):
        import types
        if not self.path.exists(p):
            raise FileNotFoundError(p)
        mt = self.path.getmtime(p)
        return types.SimpleNamespace(st_mtime=mt, st_mtime_ns=int(mt * 1e9), st_size=self.path.getsize(p), st_ctime=mt)

    def getenv(self, k, default=None):
        return self.environ.get(k, default)

    def listdir(self, p):
        pre = p.rstrip('/') + '/'
        names = set()
        for q in list(self.fs.files) + list(self.fs.dirs) + list(self.fs.sockets):
            if q.startswith(pre):
                names.add(q[len(pre):].split('/', 1)[0])
        return sorted(names)


class FakeFs:
    def __init__(self, sc):
        self.env = dict(sc.get('env', {}))
        self.mtimes = dict(sc.get('mtimes', {}))
        self.cwd = sc.get('cwd', '/work')
        self.links = dict(sc.get('links', {}))     # symbolic links: path -> absolute target
        self.opened = []
        self.load(sc)

    def load(self, sc):
        """the scenario names files and directories by the path they are reached by; they are kept by where they really are"""
        real = FakePath(self)._abs
        self.files = {real(k): v for k, v in sc.get('files', {}).items()}
        self.dirs = set(real(d) for d in sc.get('dirs', []))
        self.sockets = set(real(x) for x in sc.get('sockets', []))

    def open(self, path, mode='r', *a, **k):
        self.opened.append(path)
        real = FakePath(self)._abs(path)
        if real in self.dirs:
            raise IsADirectoryError(21, 'Is a directory', path)
        if real not in self.files:
            raise FileNotFoundError(path)
        return io.StringIO(self.files[real])


# ---- reference resolver (the oracle) ------------------------------------------------------------


def ref_parse_file(text):
    out = {}
    for line in text.splitlines():
        st = line.strip()
        if not st or st[0] in '#;':
            continue
        for i, ch in enumerate(st):
            if ch in '=:':
                out[st[:i].strip().lower()] = st[i + 1:].strip()
                break
    return out


def ref_resolve(sc):
    fs = FakeFs(sc)
    exists = FakePath(fs).exists
    # "the first existing client configuration FILE": a directory of that name is not one
    conf_path = next((p for p in CONF_PATHS if FakePath(fs).isfile(p)), None)
    file_vals = ref_parse_file(fs.files[FakePath(fs)._abs(conf_path)]) if conf_path else {}
    if not exists('/run/nfd/nfd.sock') and exists('/run/nfd.sock'):
        default_transport = 'unix:///run/nfd.sock'
    else:
        default_transport = 'unix:///run/nfd/nfd.sock'
    defaults = {'transport': default_transport, 'pib': 'pib-sqlite3', 'tpm': 'tpm-file'}
    out = {}
    source = {}
    for k in KEYS:
        envk = 'NDN_CLIENT_' + k.upper()
        if envk in fs.env:
            out[k], source[k] = fs.env[envk], 'env'
        elif k in file_vals:
            out[k], source[k] = file_vals[k], 'file'
        else:
            out[k], source[k] = defaults[k], 'default'
    abstain = {}
    for k in ('pib', 'tpm'):
        scheme, _, loc = out[k].partition(':')
        dflt = DEFAULT_PIB_DIR if k == 'pib' else DEFAULT_TPM_DIR
        if loc and exists(loc):
            final = loc
        elif loc and exists(posixpath.join(posixpath.dirname(conf_path or ''), loc)):
            final = posixpath.join(posixpath.dirname(conf_path or ''), loc)
        else:
            # "a missing one falls back to the platform default location": whether or not that location
            # exists yet (a fresh account) - the statement makes no exception, and any other answer opens or
            # creates the stores somewhere the user never named
            final = dflt
        out[k] = (scheme, final)
    return out, source, abstain, conf_path


def ref_face(uri):
    """-> ('unix', path) | ('tcp', host, port) | ('udp', host, port) | ('error',) | None (abstain)"""
    if '://' not in uri:
        return None if ':' in uri else ('error',)       # 'tcp:/host' etc.: malformed rather than unknown - not judged
    scheme, rest = uri.split('://', 1)
    scheme = scheme.lower()
    if scheme == 'unix':
        if rest.startswith('/') and len(rest) > 1:
            return ('unix', rest)
        auth, sl, path = rest.partition('/')
        if auth.lower() == 'localhost' and sl and path:
            return ('unix', '/' + path)         # unix://localhost/path: the authority is not part of the socket path
        return None
    if scheme not in ('tcp', 'tcp4', 'tcp6', 'udp', 'udp4', 'udp6'):
        return ('error',)
    hostport = rest.split('/', 1)[0]
    if hostport.startswith('['):
        host, _, tail = hostport[1:].partition(']')
        port = tail[1:] if tail.startswith(':') else ''
    else:
        host, _, port = hostport.partition(':')
    if not host:
        return None
    p = int(port) if port else 6363
    if p == 0:
        return None
    return ('tcp' if scheme.startswith('tcp') else 'udp', host.lower(), p)


# ---- execution ----------------------------------------------------------------------------------


class ConfWorld(World):
    def __init__(self, scenario):
        super().__init__(scenario, max_steps=5000, max_time=30.0)
        self.set_ndn_log_level(False)
        self.fs = FakeFs(scenario)
        import ndn.client_conf as cc
        import ndn.platform.linux as pl
        fake_os = FakeOs(self.fs)
        self.seams.set(cc, 'os', fake_os)
        self.seams.set(cc, 'open', self.fs.open)
        self.seams.set(pl, 'os', fake_os)
        self.stream = StreamPeer(lambda w: None)
        self.stream.install(self.seams)
        self.dgram = DatagramPeer(lambda w: None)
        self.dgram.install(self.loop)
        import ndn.transport.ip_face as ipf
        self.seams.set(ipf, 'getaddrinfo', lambda host, port, *a, **k: [(2, 1, 6, '', ('127.0.0.1', port))])
        world = self
        self.store_calls = []

        class TpmStandIn:
            def __init__(self, path):
                world.store_calls.append(('tpm-file', path))
                self.path = path

        class PibStandIn:
            def __init__(self, path, tpm):
                world.store_calls.append(('pib-sqlite3', path))
                self.path = path
                self.tpm = tpm

            def get_signer(self, kw):
                return None
        self.seams.set(cc, 'TpmFile', TpmStandIn)
        self.seams.set(cc, 'KeychainSqlite3', PibStandIn)
        self.cc = cc

    def execute(self, keep_events=False):
        sc = self.scenario
        try:
            exp, source, abstain, conf_path = ref_resolve(sc)
            # 0. an earlier look-up in the same process, when the environment still looked different
            if sc.get('prior'):
                now_fs = (self.fs.files, self.fs.dirs, self.fs.sockets, dict(self.fs.env))
                pr = sc['prior']
                self.fs.load(pr)
                self.fs.env.clear()
                self.fs.env.update(pr.get('env', {}))
                try:
                    self.cc.read_client_conf()
                except Exception:
                    pass
                self.fs.files, self.fs.dirs, self.fs.sockets = now_fs[0], now_fs[1], now_fs[2]
                self.fs.env.clear()
                self.fs.env.update(now_fs[3])
                self.stats['fault.config_changed_between_lookups'] += 1
            # 1. read_client_conf
            conf = None
            try:
                conf = self.cc.read_client_conf()
                self.log('conf', conf=dict(conf))
            except Exception as e:
                self.log('conf-raised', exc=exc_brief(e), where=innermost_ndn_frame(e))
                self.violate('C20', 'read-raised', 'client_conf', innermost_ndn_frame(e),
                             f'read_client_conf raised {exc_brief(e)} for env={sc.get("env")} files={list(sc.get("files", {}))}')
            if conf is not None:
                if conf.get('transport') != exp['transport']:
                    self.violate('C20', 'precedence', 'client_conf', 'transport-' + source['transport'],
                                 f'transport resolved to {conf.get("transport")!r}; environment over file over default '
                                 f'gives {exp["transport"]!r} (from {source["transport"]})')
                for k in ('pib', 'tpm'):
                    scheme, loc = exp[k]
                    got_scheme, _, got_loc = str(conf.get(k, '')).partition(':')
                    if got_scheme != scheme:
                        self.violate('C20', 'precedence', 'client_conf', f'{k}-{source[k]}',
                                     f'{k} scheme resolved to {got_scheme!r}; expected {scheme!r} (from {source[k]})')
                    elif k not in abstain and self._real(got_loc) != self._real(loc):
                        self.violate('C20', 'location', 'client_conf', f'{k}-{source[k]}',
                                     f'{k} location resolved to {got_loc!r}; expected {loc!r} (value from {source[k]}, '
                                     f'config file {conf_path})')
                    elif k in abstain:
                        self.ambiguous += 1
            # 2. default_keychain
            std_stores = exp['pib'][0] == 'pib-sqlite3' and exp['tpm'][0] == 'tpm-file'
            for k in KEYS:
                self.tok(f'{k}:{source[k]}')
            self.tok(f'file:{CONF_PATHS.index(conf_path) if conf_path else -1}')
            self.tok(f'abstain:{sorted(abstain)}')
            self.tok(f'loc:{[exp[k][1] is not None and (exp[k][1].startswith("/var") + 2 * ("-store" in exp[k][1])) for k in ("pib", "tpm")]}')
            if conf is not None and 'pib' not in abstain and 'tpm' not in abstain and std_stores:
                self.store_calls.clear()
                try:
                    self.cc.default_keychain(conf['pib'], conf['tpm'])
                    want = []
                    if exp['tpm'][0] == 'tpm-file':
                        want.append(('tpm-file', exp['tpm'][1]))
                    if exp['pib'][0] == 'pib-sqlite3':
                        want.append(('pib-sqlite3', posixpath.join(exp['pib'][1], 'pib.db')))
                    if exp['tpm'][0] != 'tpm-file' or exp['pib'][0] != 'pib-sqlite3':
                        self.violate('C20', 'store-scheme-accepted', 'client_conf', 'default_keychain',
                                     f'unknown store scheme accepted: pib={conf["pib"]} tpm={conf["tpm"]}')
                    elif [(a, self._real(b)) for a, b in self.store_calls] != [(a, self._real(b)) for a, b in want]:
                        self.violate('C20', 'store-location', 'client_conf', 'default_keychain',
                                     f'stores opened {self.store_calls}; expected {want}')
                except ValueError as e:
                    if exp['tpm'][0] == 'tpm-file' and exp['pib'][0] == 'pib-sqlite3':
                        self.violate('C20', 'store-refused', 'client_conf', innermost_ndn_frame(e),
                                     f'default_keychain refused pib={conf["pib"]} tpm={conf["tpm"]}: {exc_brief(e)}')
                except Exception as e:
                    self.violate('C20', 'keychain-raised', 'client_conf', innermost_ndn_frame(e),
                                 f'default_keychain raised {exc_brief(e)}')
            # 3. default_face + the real connection attempt of NDNApp()
            want_face = ref_face(exp['transport'])
            self.tok(f'face:{want_face[0] if want_face else None}')
            if want_face is None:
                self.ambiguous += 1
            else:
                std = exp['pib'][0] == 'pib-sqlite3' and exp['tpm'][0] == 'tpm-file' and not abstain
                self._connect(want_face, exp['transport'], sc.get('frontend', 'v2') if std else 'v2')
            res = self.result(None, keep_events)
            res.nontrivial = len(set(source.values())) >= 2 or bool(sc.get('files'))
            return res
        finally:
            self.close()

    def _real(self, p):
        """two spellings of one location are the same location"""
        return FakePath(self.fs)._abs(p) if p else p

    def _connect(self, want, uri, fe):
        app = None
        try:
            if fe == 'v2':
                from ndn import appv2
                app = appv2.NDNApp()
            else:
                from ndn import app as appv1
                app = appv1.NDNApp()
        except ValueError as e:
            self.log('app-refused', exc=exc_brief(e))
            if want != ('error',):
                self.violate('C20', 'face-refused', 'client_conf', innermost_ndn_frame(e),
                             f'transport {uri!r} was refused: {exc_brief(e)}; expected a {want} face')
            return
        except Exception as e:
            self.violate('C20', 'app-raised', 'client_conf', innermost_ndn_frame(e),
                         f'constructing the application with transport {uri!r} raised {exc_brief(e)}')
            return
        if want == ('error',):
            self.violate('C20', 'unknown-scheme-accepted', 'client_conf', 'default_face',
                         f'transport {uri!r} has an unknown scheme but was accepted (face {type(app.face).__name__})')
            return
        state = {}

        async def main():
            try:
                await app.main_loop()
            except Exception as e:
                state['exc'] = e
        self.loop.call_soon(lambda: state.setdefault('task', self.loop.create_task(main())))
        self.at(50_000, lambda: app.shutdown() if app.face.running else None)
        limit = self.run()
        if limit:
            raise HarnessError('limit in clientconf run')
        connects = self.stream.connects + self.dgram.connects
        self.log('connects', connects=[list(c) for c in connects])
        if 'exc' in state:
            e = state['exc']
            self.violate('C20', 'connect-raised', 'client_conf', innermost_ndn_frame(e),
                         f'connecting with transport {uri!r} raised {exc_brief(e)}')
            return
        got = [tuple(c) for c in connects]
        if got != [want]:
            self.violate('C20', 'endpoint', 'client_conf', want[0],
                         f'transport {uri!r}: the application connected to {got}; the URI denotes {want}')


# ---- generation ---------------------------------------------------------------------------------

TRANSPORTS_OK = ['unix:///run/nfd/nfd.sock', 'unix:///run/nfd.sock', 'unix:///tmp/my.sock', 'unix:///var/run/NFD/Nfd.sock', 'unix:///tmp/MySock',
                 'TCP://10.1.2.9:7001', 'tcp://10.1.2.3', 'tcp://10.1.2.3:7000',
                 'tcp4://nfd.example.net:6363', 'tcp6://[::1]:6363', 'tcp6://[2001:db8::1]', 'udp://10.9.8.7', 'udp4://10.9.8.7:56363',
                 'udp6://[fe80::2]:6364', 'tcp://localhost', 'udp://router:1', 'unix://localhost/run/nfd/nfd.sock',
                 'unix://LocalHost/tmp/Other.sock']
TRANSPORTS_BAD = ['ws://10.1.2.3:9696', 'wss://x', 'http://nfd', 'dev://eth0', 'ether://[01:00:5e:00:17:aa]', 'nfd.sock', '',
                  'tcp:/10.0.0.1', 'internal://', 'unixs:///run/nfd.sock', 'tcp46://10.1.2.3', 'tcp44://10.1.2.3:6363', 'udp66://[::1]',
                  'udp64://router', 'tcp5://10.1.2.3', 'udp7://10.1.2.3', 'tcpx://10.1.2.3', 'xtcp://10.1.2.3', 'tcp-4://h', 'udp://',
                  'unix4:///run/nfd.sock', 'tcp4a://10.0.0.1', 'utcp://10.0.0.1', 'tcp666://10.0.0.1']


def generate(rng, seed, tier='quick'):
    idx = seed % 5120
    env_bits = idx % 8
    idx //= 8
    file_idx = idx % 5          # 0 = no file, 1..4 = which candidate path exists first
    idx //= 5
    key_bits = idx % 8
    idx //= 8
    pib_cls = idx % 4
    idx //= 4
    tpm_cls = idx % 4
    files = {}
    dirs = set()
    sockets = set()
    env = {}
    if rng.random() < 0.8:
        dirs.add(DEFAULT_PIB_DIR)
    if rng.random() < 0.8:
        dirs.add(DEFAULT_TPM_DIR)
    for s in ('/run/nfd/nfd.sock', '/run/nfd.sock'):
        if rng.random() < 0.5:
            sockets.add(s)
    bad = rng.random() < 0.2
    cwd = rng.choice(['/work', '/work', HOME, HOME + '/.ndn', '/'])

    def transport():
        return rng.choice(TRANSPORTS_BAD if (bad and rng.random() < 0.7) else TRANSPORTS_OK)

    def store(kind, cls, conf_dir):
        scheme = 'pib-sqlite3' if kind == 'pib' else 'tpm-file'
        if rng.random() < 0.05:
            scheme = rng.choice(['pib-memory', 'tpm-osxkeychain', 'tpm-memory', 'pib-sqlite3', 'tpm-file'])
        if cls == 0:
            return scheme                                   # no location
        if cls == 1:
            loc = f'/var/lib/ndn/{kind}{rng.randint(0, 3)}'
            if rng.random() < 0.12:
                loc += rng.choice(['-100%full', '.a:b', '%d', ':1', ' #2', ' ;old', ' copy'])      # characters a path may well contain
            dirs.add(loc)
            if kind == 'pib' and rng.random() < 0.4:
                dirs.add(loc + '/ndnsec-key-file')      # a key directory next to that database (it is NOT the platform default)
            return f'{scheme}:{loc}'                        # exists, absolute
        if cls == 2:
            rel = f'{kind}-store{rng.randint(0, 3)}'
            if rng.random() < 0.2:
                rel = f'../{kind}-up{rng.randint(0, 1)}'        # next to the configuration directory
            where = rng.choice(['conf', 'conf', 'cwd', 'both', 'neither'])
            if conf_dir is not None and where in ('conf', 'both'):
                dirs.add(posixpath.join(conf_dir, rel))     # relative to the config file
            if where in ('cwd', 'both'):
                dirs.add(posixpath.join(cwd, rel))          # exists as given (seen from the working directory)
            return f'{scheme}:{rel}'
        return f'{scheme}:/nonexistent/{kind}{rng.randint(0, 3)}'     # missing

    conf_dir = None
    if file_idx:
        first = file_idx - 1
        conf_dir = posixpath.dirname(CONF_PATHS[first])
        for j in range(first, 4):
            if j == first or rng.random() < 0.3:
                lines = []
                style = rng.choice(['plain', 'comments', 'spaced', 'upper', 'indented'])
                if style == 'comments':
                    lines += ['; client configuration', '# generated', '']
                vals = {'transport': transport(), 'pib': store('pib', pib_cls, posixpath.dirname(CONF_PATHS[j])),
                        'tpm': store('tpm', tpm_cls, posixpath.dirname(CONF_PATHS[j]))}
                for bit, k in enumerate(KEYS):
                    present = (key_bits >> bit) & 1 if j == first else rng.random() < 0.5
                    if present:
                        kk = k.upper() if style == 'upper' else (k.capitalize() if rng.random() < 0.2 else k)
                        sep = ' = ' if style == 'spaced' else rng.choice(['=', '=', ' =', '= ', ': '])
                        ind = rng.choice(['', '  ', '\t', '    ', '\x0c', '\xa0 ', '\x0b']) if style == 'indented' else ''
                        lines.append(f'{ind}{kk}{sep}{vals[k]}')
                    elif style == 'comments' and rng.random() < 0.5:
                        lines.append(f';{k}={vals[k]}')
                    if rng.random() < 0.2:
                        lines.append('')
                rng.shuffle(lines) if style == 'plain' and rng.random() < 0.5 else None
                files[CONF_PATHS[j]] = '\n'.join(lines) + ('\n' if rng.random() < 0.8 else '')
    for bit, k in enumerate(KEYS):
        if (env_bits >> bit) & 1:
            if k == 'transport':
                env['NDN_CLIENT_TRANSPORT'] = transport()
            else:
                env['NDN_CLIENT_' + k.upper()] = store(k, rng.randrange(4), conf_dir)
    if rng.random() < 0.3:
        env['NDN_LOG'] = '*=DEBUG'
    sc = {'engine': 'clientconf', 'property': 'C20', 'seed': seed, 'config': {'turn_cost_us': 0, 'wall_gran_us': 1000},
          'frontend': rng.choice(['v2', 'v2', 'v1']), 'files': files, 'dirs': sorted(dirs), 'sockets': sorted(sockets),
          'env': env, 'cwd': cwd, 'ops': [{'k': k} for k in sorted(files)] or [{'k': 'none'}]}
    if rng.random() < 0.05:
        # a DIRECTORY sits where a configuration file is looked for (client.conf/ holding fragments, a packaging slip)
        cand = [p for p in CONF_PATHS if p not in files]
        if cand:
            sc['dirs'] = sorted(set(sc['dirs']) | {rng.choice(cand)})
    if rng.random() < 0.12:
        # ~/.ndn is a symbolic link (a configuration kept elsewhere): '..' from there leaves the directory it points to
        sc['links'] = {HOME + '/.ndn': '/data/ndn-conf'}
        if rng.random() < 0.5:
            sc['dirs'] = sorted(set(sc['dirs']) | {HOME + '/pib-up0', HOME + '/tpm-up1'})     # what a lexical reading of '..' finds
    if rng.random() < 0.25:
        # the same paths held other content (same modification second) when the process looked first
        pf = {}
        for path in files or {CONF_PATHS[rng.randrange(4)]: ''}:
            pf[path] = '\n'.join(f'{k}={v}' for k, v in (('transport', rng.choice(TRANSPORTS_OK)), ('pib', 'pib-sqlite3:/var/lib/ndn/old'),
                                                           ('tpm', 'tpm-file:/var/lib/ndn/oldtpm')) if rng.random() < 0.8) + '\n'
        sc['prior'] = {'files': pf, 'dirs': sorted(dirs | {'/var/lib/ndn/old', '/var/lib/ndn/oldtpm'}), 'sockets': sorted(sockets),
                       'env': {k: rng.choice(TRANSPORTS_OK) if 'TRANSPORT' in k else v for k, v in env.items() if rng.random() < 0.5}}
    return sc


def execute(sc, keep_events=False):
    w = ConfWorld(sc)
    return w.execute(keep_events)


def simplifications(sc):
    for p in list(sc['files']):
        c = copy.deepcopy(sc)
        del c['files'][p]
        yield c
    for k in list(sc['env']):
        c = copy.deepcopy(sc)
        del c['env'][k]
        yield c
    for p, text in sc['files'].items():
        lines = text.splitlines()
        for i in range(len(lines)):
            c = copy.deepcopy(sc)
            c['files'][p] = '\n'.join(lines[:i] + lines[i + 1:]) + '\n'
            yield c
