"""Reference model and oracles for the pipeline engine (C03, C04, C05, C06-collateral, C10-nack/token).

Everything is evaluated over the recorded history after the run.  Where two deciding events fall
within W_US of each other (or of a deadline) the model accepts either outcome; internal errors,
hangs and leftovers are never excused."""
import collections

from simkit import tlvref
from simkit.core import W_US
from engines.pipeline import classify

ACCEPT_V2 = ('PASS', 'ALLOW_BYPASS')
TRUTHY_V1 = ('PASS', 'ALLOW_BYPASS', 'TRUTHY_STR')


def _is_prefix(a, b):
    return len(a) <= len(b) and list(b[:len(a)]) == list(a)


def _fmt_name(comps):
    out = []
    for c in comps:
        try:
            t, n1 = tlvref.dec_var(c, 0, strict=False)
            _l, n2 = tlvref.dec_var(c, n1, strict=False)
            v = bytes(c[n1 + n2:])
            out.append((f'{t}=' if t != 8 else '') + (v.decode() if v.isascii() and v.isalnum() else v.hex()))
        except Exception:
            out.append(bytes(c).hex())
    return '/' + '/'.join(out)


def _split_digest(name):
    """full Interest name -> (node name, implicit digest or None)"""
    if name:
        last = name[-1]
        if last[0] == tlvref.T_IMPLICIT_DIGEST and len(last) == 34:
            return list(name[:-1]), bytes(last[2:])
    return list(name), None


class History:
    def __init__(self, world):
        self.world = world
        self.fe = world.fe
        sc = world.scenario
        self.lp_mode = sc.get('config', {}).get('lp_oracle', 'lib')
        self.ops = {('express', op['id']): op for op in sc['ops'] if op['op'] == 'express'}
        self.attach_ops = {op['hid']: op for op in sc['ops'] if op['op'] == 'attach'}
        ev = world.events
        self.events = ev
        self.express = {}
        self.done = collections.defaultdict(list)
        self.rx = []
        self.cancels = collections.defaultdict(list)
        self.shutdowns = []
        self.jumps = 0
        self.hcalls = []
        self.replies = []
        self.table_events = []
        self.val_start = collections.defaultdict(list)
        self.val_end = collections.defaultdict(list)
        self.final = None
        self.unclear = False
        self.await_start = {}
        self.abandoned = 0
        for e in ev:
            k = e['k']
            if k == 'express':
                self.express[e['id']] = e
            elif k == 'done':
                self.done[e['id']].append(e)
            elif k == 'rx':
                if e['delivered']:
                    c = classify(e['wire'], self.lp_mode)
                    e = dict(e)
                    e['c'] = c
                    if c['kind'] == 'unclear':
                        self.unclear = True
                    self.rx.append(e)
            elif k == 'cancel':
                if e['live']:
                    self.cancels[e['id']].append(e)
            elif k == 'shutdown':
                if e['running']:
                    self.shutdowns.append(e)
            elif k == 'wall_jump':
                self.jumps += 1
            elif k == 'hcall':
                self.hcalls.append(e)
            elif k == 'reply':
                self.replies.append(e)
            elif k in ('attach', 'detach'):
                self.table_events.append(e)
            elif k == 'val-start':
                self.val_start[tuple(e['who'])].append(e)
            elif k == 'val-end':
                self.val_end[tuple(e['who'])].append(e)
            elif k == 'final':
                self.final = e
            elif k == 'await-start':
                self.await_start[e['id']] = e
        self.first_shutdown = self.shutdowns[0]['t'] if self.shutdowns else None
        self.had_junk = any(r['c']['kind'] == 'junk' for r in self.rx)


def judge(world):
    h = History(world)
    if world.loop.limit_hit:
        return
    if h.unclear:
        world.ambiguous += 1
        return
    relaxed = False        # a wall-clock jump does not change how long a lifetime is
    judge_consumer(world, h, relaxed)
    judge_producer(world, h, relaxed)
    judge_overrun(world, h)


def _app_validator_at(world, t):
    """-> (spec of the application-wide Interest validator in force at time t, or None for the library default; too close to call)"""
    vs = world.scenario.get('app_int_validator')
    at = world.scenario.get('app_int_validator_at')
    if vs is None or at is None:
        return vs, False
    if abs(t - at) <= W_US + (vs.get('latency_us', 0) if t < at else 0):
        return None, True
    return (vs if t > at else None), False


def judge_overrun(world, h):
    """A packet in which an element runs over the end of its parent is malformed; the library's decoder clips the value
    silently (TlvModel.parse documents IndexError for it).  Reported when such a packet completed an Interest with its
    (clipped) payload or reached a handler."""
    for r in h.rx:
        c = r['c']
        if not c.get('overrun'):
            continue
        if c['kind'] == 'data':
            twins = [x for x in h.rx if x is not r and x['c']['kind'] == 'data' and not x['c'].get('overrun')
                     and list(x['c']['name']) == list(c['name']) and x['c'].get('content') == c.get('content')]
            if twins:
                continue
            for iid, dl in h.done.items():
                for d in dl:
                    if d['out'] == 'data' and d['seq'] > r['seq'] and list(d.get('name', [])) == list(c['name']) \
                            and d.get('content') == c.get('content'):
                        world.violate('C06', 'overrun-accepted', h.fe, 'data',
                                      f'Interest {iid} was completed with Data {_fmt_name(c["name"])} from a packet in which an '
                                      f'element runs over the end of its parent (the value was clipped to what is there)')
                        return
        elif c['kind'] == 'interest':
            twins = [x for x in h.rx if x is not r and x['c']['kind'] == 'interest' and not x['c'].get('overrun')
                     and list(x['c']['name']) == list(c['name']) and x['c'].get('nonce') == c.get('nonce')]
            if twins:
                continue
            for x in h.hcalls:
                if x['seq'] > r['seq'] and list(x['name']) == list(c['name']) and x['nonce'] == c.get('nonce'):
                    world.violate('C06', 'overrun-accepted', h.fe, 'interest',
                                  f'Interest {_fmt_name(c["name"])} reached handler {x["hid"]} although an element of the '
                                  f'packet runs over the end of its parent')
                    return


# ----------------------------------------------------------------------------------------------
# consumer side: C03, C05 (consumer clauses), C06 collateral


def _default_digest_verdict(inner, is_interest):
    """What the legacy front-end's default validator (sha256_digest_checker) must say about this packet,
    computed with the independent reader: True / False, or None when the reader cannot tell."""
    import hashlib
    try:
        p = tlvref.parse_interest(inner) if is_interest else tlvref.parse_data(inner)
        if p.sig_info is None:
            return True
        els = tlvref.elements(p.sig_info)
        st = tlvref.find(els, tlvref.T_SIG_TYPE)
        if st is None:
            return None
        styp = int.from_bytes(p.sig_info[st[2]:st[3]], 'big')
        if styp != 0:
            return True             # the digest checker only judges DigestSha256 signatures
        if p.signed_portion is None or not p.sig_value:
            return False
        if getattr(p, 'signed_ambiguous', False):
            return None
        return hashlib.sha256(p.signed_portion).digest() == p.sig_value
    except Exception:
        return None


def _verdict_outcome(fe, vspec, d):
    """Outcome descriptor(s) once the validator has finished on Data d (a set)."""
    name = tuple(d['name'])
    content = d['content']
    if vspec is None:
        # legacy front-end default validator = digest checker
        v = _default_digest_verdict(d.get('inner', b''), False)
        if v is True:
            return ('data', name, content)
        if v is False:
            return ('invalid', name, content, None)
        return ('either', name, content)
    verdict = vspec.get('verdict', 'PASS')
    if vspec.get('raise') in ('timeout', 'cancel'):
        verdict = 'TIMEOUT'
    if fe == 'v2':
        if verdict in ACCEPT_V2:
            return ('data', name, content)
        return ('invalid', name, content, verdict)
    if verdict in TRUTHY_V1:
        return ('data', name, content)
    return ('invalid', name, content, None)


def _actual_descr(a):
    o = a['out']
    if o == 'data':
        return ('data', tuple(a['name']), a['content'])
    if o == 'nack':
        return ('nack', a['reason'])
    if o == 'timeout':
        return ('timeout',)
    if o in ('canceled', 'cancelled-error'):
        return ('canceled',)
    if o == 'invalid':
        return ('invalid', tuple(a['name']), a['content'], a.get('result'))
    return (o, a.get('exc'))


def _match_invalid(exp, act, fe):
    if exp[0] != 'invalid' or act[0] != 'invalid':
        return False
    if exp[1] != act[1] or exp[2] != act[2]:
        return False
    if fe == 'v2':
        return exp[3] == act[3]
    return True


def _in(act, acc, fe):
    for e in acc:
        if e == act or _match_invalid(e, act, fe):
            return True
    return False


def _short(d):
    if d[0] in ('data', 'invalid'):
        extra = (d[3],) if len(d) > 3 else ()
        return (d[0], _fmt_name(d[1]), None if d[2] is None else len(d[2])) + extra
    return d


def _acceptable(h, fe, ex, op, iid, dl, t_await, w_us):
    """Acceptable outcome sets of one Interest for deadline `dl`, when the caller starts awaiting at `t_await`.
    -> (acc03, acc05, late_possible, number of deciding candidates)"""
    te = ex['t']
    node_name, digest = _split_digest(ex['name'])
    vspec = op.get('validator')
    lat = (vspec or {}).get('latency_us', 0)
    cands = []          # (t, kind, payload, optional)
    for r in h.rx:
        c = r['c']
        t = r['t_last']
        if t < te - w_us:
            continue
        optional = t <= te + w_us
        if c['kind'] == 'data':
            if ex['cbp']:
                m = _is_prefix(node_name, c['name'])
            else:
                m = list(c['name']) == list(node_name)
            if m and digest is not None:
                m = c['digest'] == digest
            if m:
                cands.append((t, 'data', c, optional))
        elif c['kind'] == 'nack':
            if list(c['name']) == list(ex['name']):
                cands.append((t, 'nack', c, optional))
    for s in h.shutdowns:
        if s['t'] >= te - w_us:
            cands.append((s['t'], 'shutdown', None, s['t'] <= te + w_us))
            break
    cands.append((dl, 'timeout', None, False))
    cands.sort(key=lambda x: x[0])
    t0 = min(c[0] for c in cands if not c[3])
    deciders = [c for c in cands if c[0] <= t0 + w_us]
    cancels = [ce['t'] for ce in h.cancels.get(iid, [])]

    acc03 = set()       # acceptable for C03 (which event decided; validation lateness lenient)
    acc05 = set()       # acceptable for C05 (validator clauses strict)
    late_possible = False
    for (t, kind, c, _opt) in deciders:
        if kind == 'nack':
            o03 = {('nack', c['reason'])}
            o05 = set(o03)
            end = max(t, t_await)
        elif kind == 'shutdown':
            o03 = {('canceled',)}
            o05 = set(o03)
            end = max(t, t_await)
        elif kind == 'timeout':
            o03 = {('timeout',)}
            o05 = set(o03)
            end = max(t, t_await)
        else:
            vo = _verdict_outcome(fe, vspec, c)
            # the current front-end validates as soon as the Data is there; the legacy one when the caller awaits
            tv = (t if fe == 'v2' else max(t, t_await)) + lat
            if vo[0] == 'either':
                o03 = {('data', vo[1], vo[2]), ('invalid', vo[1], vo[2], None)}
            else:
                o03 = {vo}
            o05 = set(o03)
            end = max(tv, t_await)
            if tv > dl + w_us:
                o05 = {('timeout',)}
                o03 = o03 | {('timeout',)}
                end = max(dl, t_await)
                late_possible = True
            elif tv >= dl - w_us:
                o05 = o05 | {('timeout',)}
                o03 = o03 | {('timeout',)}
            for s in h.shutdowns:
                if t - w_us < s['t'] < end + w_us:
                    o03.add(('canceled',))
                    o05.add(('canceled',))
        # the caller's own cancellation: decisive if it comes before the completion would reach the caller
        for tc in cancels:
            if tc < t - w_us:
                o03, o05 = {('canceled',)}, {('canceled',)}
            elif tc < end - w_us:
                if tc > t + w_us or kind in ('data',):
                    o03, o05 = {('canceled',)}, {('canceled',)}
                else:
                    o03.add(('canceled',))
                    o05.add(('canceled',))
            elif tc <= end + w_us:
                o03.add(('canceled',))
                o05.add(('canceled',))
        acc03 |= o03
        acc05 |= o05
    return acc03, acc05, late_possible, len(deciders)


def judge_consumer(world, h, relaxed):
    fe = h.fe
    for iid, ex in h.express.items():
        op = h.ops.get(('express', iid))
        if op is None:
            continue
        dones = h.done.get(iid, [])
        comp = f'{fe}'
        if not dones:
            world.violate('C03', 'hang', comp, 'express',
                          f'Interest {iid} {_fmt_name(ex["name"])} never completed (expressed t={ex["t"]}us)')
            continue
        if len(dones) > 1:
            world.violate('C03', 'twice', comp, 'express', f'Interest {iid} completed {len(dones)} times')
        a = dones[0]
        if a['out'] == 'error' and fe == 'v1' and (op.get('validator') or {}).get('raise') == 'timeout' \
                and a.get('exc') == 'TimeoutError' and h.val_end.get(('express', iid)):
            # the legacy front-end hands the validator's own exception to the caller as it is (it has no verdict for it)
            continue
        if a['out'] == 'error':
            world.violate('C03', 'internal-error', comp, a.get('where', '?'),
                          f'Interest {iid} {_fmt_name(ex["name"])} finished with internal error {a.get("msg")}')
            continue
        if not ex['running']:
            continue            # expressing on a face that is down: NetworkError is documented; not C03's business
        if a['out'] == 'sync-raise' and ex.get('send_fails') and a.get('exc') == 'OSError':
            # the transport refused the packet and express() said so: the Interest was never expressed - nothing of it may
            # stay behind (the leftover rule below)
            continue
        if a['out'] == 'sync-raise':
            world.violate('C03', 'internal-error', comp, a.get('where', '?'),
                          f'express() of Interest {iid} raised {a.get("msg")} although the face was running')
            continue
        if (op.get('await_delay_us') or 0) and h.await_start.get(iid) is None:
            # the caller was cancelled (or the run ended) before it ever awaited the result: the Interest was abandoned,
            # there is no completion to judge and nothing the library could have cleaned up
            h.abandoned += 1
            world.ambiguous += 1
            continue
        if relaxed:
            continue
        te = ex['t']
        life_us = (ex['lifetime'] if ex['lifetime'] is not None else (4000 if fe == 'v2' else 100)) * 1000
        dl = te + life_us
        d_us = op.get('await_delay_us', 0) or 0
        aw = h.await_start.get(iid)
        if d_us and aw is None:
            # the caller was cancelled (or the run ended) before it ever awaited the result: the Interest was abandoned,
            # there is no completion to judge and nothing the library could have cleaned up
            h.abandoned += 1
            world.ambiguous += 1
            continue
        t_await = aw['t'] if aw is not None else te
        w_us = W_US + (world.cfg.get('wall_gran_us', 1000) if d_us else 0)
        vspec = op.get('validator')
        acc03, acc05, late_possible, n_dec = _acceptable(h, fe, ex, op, iid, dl, t_await, w_us)
        if n_dec > 1:
            world.ambiguous += 1
        act = _actual_descr(a)
        if a['out'] == 'cancelled-error' and world.scenario['property'] == 'C03' and not any(c_['t'] <= a['t'] for c_ in h.cancels.get(iid, [])):
            # the awaiting task was cancelled (a bare CancelledError came out of the await) although its owner never
            # cancelled it: a shutdown of the face is reported to the caller as InterestCanceled, it does not kill the caller
            world.violate('C03', 'caller-task-cancelled', comp, 'express',
                          f'Interest {iid} {_fmt_name(ex["name"])}: awaiting it raised a bare CancelledError at t={a["t"]}us although '
                          f'nobody cancelled the caller')
        ok03 = _in(act, acc03, fe)
        ok05 = _in(act, acc05, fe)
        where = 'express'
        late_await = d_us and t_await > dl + w_us
        if late_await:
            # The caller starts to await only after the lifetime has run out.  What arrived in time is handed out (both
            # front-ends, documented).  What arrives AFTER the deadline - before the late await, or in the 100 ms the current
            # front-end then still waits - is handed out as well although the statement says timeout: recorded as the known
            # finding C03:late-await (no timer runs before the first await); the bare 100 ms wait itself is documented.
            grace = 100_000 if fe == 'v2' else 0
            if act[0] == 'canceled' and any(t_await - w_us <= c_['t'] <= t_await + grace + w_us
                                             for c_ in list(h.cancels.get(iid, [])) + list(h.shutdowns)):
                continue        # the caller gave up, or the face went down, while it was (still) waiting
            if not ok03 and act[0] in ('data', 'nack', 'invalid', 'canceled'):
                x03, _x05, _lp, _n = _acceptable(h, fe, ex, op, iid, t_await + grace, t_await, w_us)
                if _in(act, x03, fe):
                    world.violate('C03', 'late-await', comp,
                                  'canceled-after-deadline' if act[0] == 'canceled' else 'result-after-deadline',
                                  f'Interest {iid} {_fmt_name(ex["name"])} expressed t={te}us, deadline t={dl}us, first awaited at '
                                  f't={t_await}us: finished {_short(act)} at t={a["t"]}us because of an event (packet, shutdown) '
                                  f'that came after the deadline')
                    continue
            if act[0] == 'timeout' and ('timeout',) in acc03 and abs(a['t'] - (t_await + grace)) <= w_us:
                continue
        if not ok03 and fe != 'v2' and late_possible and act[0] == 'canceled' \
                and any(c_['t'] > dl + w_us for c_ in h.cancels.get(iid, [])):
            # the legacy front-end's validator is still running after the deadline (known finding C05:late-validator) and the
            # caller cancelled in that stretch: the same defect seen from the caller's side, not a new one
            world.violate('C05', 'late-validator', comp, where,
                          f'Interest {iid}: the validator was still running after the deadline (t={dl}us), so a cancellation at '
                          f't={a["t"]}us ended the Interest instead of the timeout at the deadline')
            continue
        if d_us and not late_await and (not ok03 or (act[0] == 'timeout' and abs(a['t'] - max(dl, t_await)) > w_us)):
            # does the outcome fit a lifetime that only starts when the caller awaits?
            dl2 = t_await + life_us
            b03, b05, _lp, _n = _acceptable(h, fe, ex, op, iid, dl2, t_await, w_us)
            del b05
            if _in(act, b03, fe) and (act[0] != 'timeout' or abs(a['t'] - dl2) <= w_us):
                world.violate('C03', 'lifetime-from-await', comp, where,
                              f'Interest {iid} {_fmt_name(ex["name"])} expressed t={te}us with lifetime {life_us}us (deadline '
                              f't={dl}us), awaited from t={t_await}us: finished {_short(act)} at t={a["t"]}us - as if the lifetime had '
                              f'started when the caller began to await (deadline t={dl2}us)')
                continue
        if not ok03:
            rule = 'outcome'
            if act[0] == 'data' and not any(e[0] == 'data' for e in acc03):
                rule = 'outcome-unexpected-data'
            elif act[0] == 'timeout' and any(e[0] in ('data', 'invalid') for e in acc03):
                rule = 'outcome-starved'
            elif act[0] == 'timeout' and any(e[0] == 'nack' for e in acc03):
                rule = 'outcome-nack-missed'
            world.violate('C03', rule, comp, where,
                          f'Interest {iid} {_fmt_name(ex["name"])} cbp={ex["cbp"]} life={life_us}us '
                          f'expressed t={te}: finished {_short(act)} at t={a["t"]}; acceptable: '
                          f'{sorted(map(str, map(_short, acc03)))}')
            nack_exp = any(e[0] == 'nack' for e in acc03)
            if act[0] == 'nack' or (nack_exp and not any(e[0] != 'nack' for e in acc03)):
                world.violate('C10', 'nack-outcome', comp, where,
                              f'Interest {iid} {_fmt_name(ex["name"])}: finished {_short(act)}; the Nack '
                              f'envelopes received allow only {sorted(map(str, map(_short, acc03)))}')
            if h.had_junk:
                world.violate('C06', 'collateral-interest', comp, where,
                              f'after malformed input, Interest {iid} finished {_short(act)}; acceptable '
                              f'{sorted(map(str, map(_short, acc03)))}')
        if not ok05:
            if act[0] in ('data', 'invalid') and late_possible:
                world.violate('C05', 'late-validator', comp, where,
                              f'Interest {iid}: the validator finished after the deadline (t={dl}us) yet its '
                              f'result {_short(act)} was returned at t={a["t"]} instead of a timeout')
            elif act[0] == 'invalid':
                world.violate('C05', 'failure-shape', comp, where,
                              f'Interest {iid} finished {_short(act)}; acceptable '
                              f'{sorted(map(str, map(_short, acc05)))}')
            elif act[0] == 'timeout' and acc05 and all(e[0] == 'invalid' for e in acc05):
                world.violate('C05', 'failure-swallowed', comp, where,
                              f'Interest {iid}: the validator rejected the Data before the deadline but the '
                              f'Interest ended with a timeout; acceptable {sorted(map(str, map(_short, acc05)))}')
        # direct safety core of C05, independent of the outcome model: payload only after an
        # accepting run of *this* Interest's validator
        if act[0] == 'data' and vspec is not None:
            ends = [v for v in h.val_end.get(('express', iid), []) if v['seq'] < a['seq']]
            accepting = _verdict_outcome(fe, vspec, {'name': (), 'content': None})[0] == 'data'
            if not ends or not accepting:
                world.violate('C05', 'consumer-unvalidated', comp, where,
                              f'Interest {iid} returned a payload but its validator '
                              f'{"did not accept" if ends else "was never run to completion"}')
        # timing of a timeout
        if act[0] == 'timeout' and ('timeout',) in acc03 and abs(a['t'] - max(dl, t_await)) > w_us \
                and not any(e[0] != 'timeout' for e in acc03):
            world.violate('C03', 'timeout-time', comp, where,
                          f'Interest {iid} timed out at t={a["t"]}us, deadline was t={dl}us')
    # leftovers
    # (also for Interests whose caller never got to await them: the lifetime timer cleans up after them)
    if h.final is not None and h.final['pit'] is not None and h.final['pit'] > 0:
        world.violate('C03', 'leftover', fe, 'pending-table',
                      f'{h.final["pit"]} pending entr(ies) remain after every Interest finished '
                      f'and every deadline passed')


# ----------------------------------------------------------------------------------------------
# producer side: C04, C05 (producer clauses), C10 token clause


def judge_producer(world, h, relaxed):
    fe = h.fe
    if not h.table_events and not h.hcalls:
        return
    sd = h.first_shutdown
    # attach / detach semantics against a dict model
    table = {}
    snapshots = []      # (seq, t, dict copy)
    for e in h.table_events:
        if sd is not None and e['t'] >= sd - W_US:
            world.ambiguous += 1
            return
        key = tuple(e['prefix'])
        if e['k'] == 'attach':
            if key in table:
                if e['ok']:
                    world.violate('C04', 'dup-attach', fe, 'attach',
                                  f'second handler {e["hid"]} accepted on occupied prefix {_fmt_name(key)}')
                    table[key] = e['hid']
                elif e.get('exc') != 'ValueError':
                    world.violate('C04', 'attach-error', fe, e.get('where', 'attach'),
                                  f'attach on occupied prefix raised {e.get("exc")} instead of ValueError')
            else:
                if e['ok']:
                    table[key] = e['hid']
                else:
                    world.violate('C04', 'attach-error', fe, e.get('where', 'attach'),
                                  f'attach on free prefix {_fmt_name(key)} raised {e.get("exc")}')
        else:
            if key in table:
                if e['ok']:
                    del table[key]
                else:
                    world.violate('C04', 'detach-error', fe, e.get('where', 'detach'),
                                  f'detach of attached prefix {_fmt_name(key)} raised {e.get("exc")}')
        snapshots.append((e['seq'], e['t'], dict(table)))

    def table_at(seq):
        cur = {}
        for s, _t, tab in snapshots:
            if s < seq:
                cur = tab
            else:
                break
        return cur

    expected = collections.Counter()
    exp_detail = {}
    dropped_by_validation = collections.Counter()
    val_expected = collections.Counter()
    skip_keys = set()
    arrivals = {}
    for r in h.rx:
        c = r['c']
        if c['kind'] != 'interest':
            continue
        t = r['t_last']
        key_n = (tuple(c['name']), c['nonce'], c['app_param'])
        arrivals.setdefault((tuple(c['name']), c['nonce']), (t, c))
        if sd is not None and t >= sd - W_US:
            skip_keys.add(key_n)
            continue
        amb = False
        for e in h.table_events:
            if abs(e['t'] - t) <= W_US and _is_prefix(list(e['prefix']), c['name']):
                amb = True
        if amb:
            world.ambiguous += 1
            skip_keys.add(key_n)
            continue
        tab = table_at(r['seq'])
        best = None
        for pfx, hid in tab.items():
            if _is_prefix(list(pfx), c['name']):
                if best is None or len(pfx) > len(best[0]):
                    best = (pfx, hid)
        if best is None:
            continue
        hid = best[1]
        aop = h.attach_ops[hid]
        deliver = True
        why = ''
        if c['need']:
            if not c['digest_ok']:
                deliver = False
                why = 'bad-digest'
            else:
                if fe == 'v2':
                    vs = aop.get('validator')
                    if vs is None:
                        deliver = False
                        why = 'no-validator'
                    else:
                        val_expected[hid] += 1
                        if vs.get('verdict', 'PASS') not in ACCEPT_V2 or vs.get('raise'):
                            deliver = False             # a validator that gives up (raises) has not accepted
                            why = 'validator-rejected'
                elif c['signed']:
                    vs = aop.get('validator')
                    if vs is None:
                        # the application's default validator - the one IN FORCE when the Interest arrives: the application
                        # may install it after the route
                        vs, near = _app_validator_at(world, t)
                        if near:
                            world.ambiguous += 1
                            skip_keys.add(key_n)
                            continue
                        who = 'appdefault'
                    else:
                        who = hid
                    if vs is not None:
                        val_expected[who] += 1
                        if vs.get('verdict', 'PASS') not in TRUTHY_V1 or vs.get('raise'):
                            deliver = False
                            why = 'validator-rejected'
                    else:
                        # library default: digest checker
                        dv = _default_digest_verdict(c.get('inner', b''), True)
                        if dv is False:
                            deliver = False
                            why = 'validator-rejected'
                        elif dv is None:
                            world.ambiguous += 1
                            skip_keys.add(key_n)
                            continue
        k = (hid,) + key_n
        if deliver:
            expected[k] += 1
            exp_detail[k] = r
        else:
            dropped_by_validation[key_n] += 1
            exp_detail[('drop',) + key_n] = why

    actual = collections.Counter()
    for e in h.hcalls:
        key_n = (tuple(e['name']), e['nonce'], e['app_param'])
        if key_n in skip_keys:
            continue
        actual[(e['hid'],) + key_n] += 1

    for k, n in actual.items():
        extra = n - expected.get(k, 0)
        if extra <= 0:
            continue
        key_n = k[1:]
        if dropped_by_validation.get(key_n):
            why = exp_detail.get(('drop',) + key_n)
            world.violate('C05', 'producer-unvalidated', fe, why,
                          f'Interest {_fmt_name(k[1])} nonce={k[2]} reached handler {k[0]} although it '
                          f'had to be dropped ({why})')
        else:
            others = [kk for kk in expected if kk[1:] == key_n and kk[0] != k[0]]
            rule = 'dispatch-wrong-handler' if others else ('dispatch-duplicate' if expected.get(k) else
                                                             'dispatch-unexpected')
            world.violate('C04', rule, fe, 'dispatch',
                          f'Interest {_fmt_name(k[1])} nonce={k[2]} was delivered to handler {k[0]} '
                          f'{n}x; model expects {expected.get(k, 0)}x'
                          + (f' (expected handler {others[0][0]})' if others else ''))
    for k, n in expected.items():
        if k[1:] in skip_keys:
            continue        # an unjudged (ambiguous) packet shares name, nonce and parameters: its deliveries were not counted
        if actual.get(k, 0) < n:
            world.violate('C04', 'dispatch-missing', fe, 'dispatch',
                          f'Interest {_fmt_name(k[1])} nonce={k[2]} should reach handler {k[0]} {n}x, '
                          f'reached it {actual.get(k, 0)}x')
            if h.had_junk:
                world.violate('C06', 'collateral-handler', fe, 'dispatch',
                              f'after malformed input, Interest {_fmt_name(k[1])} no longer reaches handler {k[0]}')

    # Dispatcher.dispatch reports truthfully whether some callback took the Interest
    for e in world.events:
        if e['k'] == 'dispatch-ret':
            key_n = None
            took = sum(1 for x in h.hcalls if x['nonce'] == e['nonce'] and list(x['name']) == list(e['name']))
            if bool(e['ret']) != bool(took):
                world.violate('C04', 'dispatch-return', fe, 'dispatcher',
                              f'Dispatcher.dispatch returned {e["ret"]!r} for {_fmt_name(e["name"])} but {took} callback(s) ran')
            del key_n
    # direct safety core of C05 on the producer side, independent of the dispatch model: an Interest that needs checking
    # reaches a handler only after an accepting run of THAT handler's validator (or of the application default one)
    used = set()
    for x in h.hcalls:
        arr = arrivals.get((tuple(x['name']), x['nonce']))
        if arr is None or not arr[1].get('need') or world.cfg.get('dispatcher'):
            continue
        c = arr[1]
        aop = h.attach_ops.get(x['hid'])
        if aop is None:
            continue
        vs = aop.get('validator')
        who = ('route', x['hid'])
        if fe != 'v2':
            if not c.get('signed'):
                continue                    # legacy front-end: unsigned parameterised Interests get the digest check only
            if vs is None:
                vs, near = _app_validator_at(world, arr[0])
                who = ('appdefault',)
                if near:
                    continue
            if vs is None:
                continue                    # library default checker
        accepting = vs is not None and not vs.get('raise') and \
            vs.get('verdict', 'PASS') in (ACCEPT_V2 if fe == 'v2' else TRUTHY_V1)
        run = next((v for v in h.val_end.get(who, []) if v['seq'] < x['seq'] and v['seq'] not in used), None)
        if run is not None:
            used.add(run['seq'])
        if vs is None or not accepting or run is None:
            world.violate('C05', 'producer-unvalidated', fe, 'handler-validator',
                          f'Interest {_fmt_name(x["name"])} nonce={x["nonce"]} reached handler {x["hid"]} '
                          + ('which has no validator' if vs is None else
                             ('whose validator does not accept' if not accepting else
                              'without a completed run of that handler\'s validator')))
    # validators must not be consulted for plain Interests
    for who, evs in h.val_start.items():
        if who[0] == 'route':
            if len(evs) > val_expected.get(who[1], 0) and not skip_keys:
                world.violate('C05', 'plain-validated', fe, 'route-validator',
                              f'validator of route {who[1]} ran {len(evs)}x, only '
                              f'{val_expected.get(who[1], 0)} Interest(s) required validation')
        elif who[0] == 'appdefault':
            if len(evs) > val_expected.get('appdefault', 0) and not skip_keys:
                world.violate('C05', 'plain-validated', fe, 'app-validator',
                              f'default Interest validator ran {len(evs)}x, only '
                              f'{val_expected.get("appdefault", 0)} Interest(s) required validation')

    # replies (current front-end): sent iff within lifetime, truthful return value, token envelope
    if fe != 'v2':
        return
    for e in h.replies:
        if e['ret_repr'] == 'NetworkError':
            continue
        hc = None
        for x in h.hcalls:
            if x['hid'] == e['hid'] and x['nonce'] == e['nonce'] and x['seq'] < e['seq']:
                hc = x
        if hc is None:
            continue
        arr = arrivals.get((tuple(hc['name']), hc['nonce']))
        if arr is None:
            continue
        t_arr, c = arr
        life = c['lifetime'] if c['lifetime'] is not None else 4000
        dl = t_arr + life * 1000
        sent = e['sent']
        if e['ret_repr'].startswith('raised:'):
            world.violate('C04', 'reply-raised', fe, e.get('where', 'reply'),
                          f'reply callback raised {e["ret_repr"][7:]}')
            continue
        # the token the peer really sent (independent reader when the envelope is the subject), not the one the
        # library reported to the handler
        token = c.get('token') if c.get('lp') else None
        if h.lp_mode != 'ref' and token is None:
            token = hc.get('token')
        # envelope / bytes
        for w in sent:
            if token is None:
                if bytes(w) != bytes(e['data']):
                    world.violate('C10' if h.lp_mode == 'ref' else 'C04', 'reply-bytes', fe, 'reply',
                                  'reply without PIT token was not sent as the bare, unmodified Data')
            else:
                ok = False
                try:
                    lp = tlvref.parse_lp(w)
                    ok = lp.pit_token == bytes(token) and lp.fragment == bytes(e['data']) \
                        and not lp.nack and lp.frag_index is None and lp.frag_count is None
                except tlvref.TlvError:
                    ok = False
                if not ok:
                    world.violate('C10', 'reply-token', fe, 'reply',
                                  f'reply to an Interest with PIT token {bytes(token).hex()} was not sent in an '
                                  f'envelope carrying that token and the unmodified Data')
        if relaxed:
            continue
        if len(sent) > 1:
            world.violate('C04', 'reply-multi', fe, 'reply', f'one reply call transmitted {len(sent)} packets')
        w_us = W_US + world.cfg.get('wall_gran_us', 1000)      # the reply deadline is read off the wall clock
        if e['t'] < dl - w_us:
            if not sent:
                world.violate('C04', 'reply-not-sent', fe, 'reply',
                              f'reply at t={e["t"]}us before the deadline t={dl}us was not transmitted')
            elif not e['ret']:
                world.violate('C04', 'reply-return', fe, 'reply',
                              f'reply was transmitted but the callback returned {e["ret_repr"]}')
        elif e['t'] > dl + w_us:
            if sent:
                world.violate('C04', 'reply-late-sent', fe, 'reply',
                              f'reply at t={e["t"]}us after the deadline t={dl}us was transmitted')
            elif e['ret']:
                world.violate('C04', 'reply-return', fe, 'reply',
                              f'reply was not transmitted but the callback returned {e["ret_repr"]}')
        else:
            world.ambiguous += 1
            if bool(sent) != bool(e['ret']):
                world.violate('C04', 'reply-return', fe, 'reply',
                              f'callback returned {e["ret_repr"]} but transmitted={bool(sent)}')
