"""Segmented-fetch engine (C19): the real segment_fetcher on a v1 NDNApp against a scripted producer
with per-segment loss / Nack / duplicate / validation-failure policies."""
import asyncio
import collections

from simkit import tlvref
from simkit.core import World, HarnessError, W_US, innermost_ndn_frame, exc_brief
from simkit.net import DirectFace

import ndn.encoding as enc
from ndn import types as ndn_types
from ndn.security import DigestSha256Signer


BYSTANDER_LIFETIMES = (7, 13, 27, 61, 130)       # never used by a fetcher: lets the scripted producer tell them apart


def seg_comp(k):
    return tlvref.tlv(tlvref.T_SEGMENT, tlvref.nni(k))


def seg_content(sc, k):
    if k in (sc.get('no_content') or ()):
        return None         # a Data packet without a Content element at all (not the same as an empty one)
    n = sc['sizes'][k] if k < len(sc['sizes']) else 3
    return bytes(((k + 1) * 31 + i) & 0xff for i in range(n))


class SegWorld(World):
    def __init__(self, scenario):
        super().__init__(scenario, max_steps=80000, max_time=900.0)
        self.set_ndn_log_level(bool(self.cfg.get('debug_log', False)))
        self.face = DirectFace(self._on_tx)
        from ndn import app as appv1
        from engines.pipeline import _StubKeychain
        self.app = appv1.NDNApp(face=self.face, keychain=_StubKeychain())
        sc = scenario
        self.prefix = tlvref.name_from_uri('/' + '/'.join(sc['prefix']))
        self.obj_name = self.prefix + (tlvref.name_from_uri('/' + sc['version']) if sc.get('version') else [])
        self.nseg = sc['nseg']                  # 0 = unsegmented object
        self.requests = collections.defaultdict(int)       # key ('disc' | k) -> Interests seen
        self.fetchers = sc.get('fetchers') or [{'start_us': 0}]
        self.bystanders = sc.get('bystanders') or []
        self.multi = len(self.fetchers) > 1 or bool(self.bystanders)
        self.yields = {i: [] for i in range(len(self.fetchers))}
        self.harness_tasks = set()

    def violate(self, prop, rule, comp, where, detail):
        if self.scenario.get('final_on') in ('early', 'first') and rule in ('order', 'outcome', 'incomplete', 'attempts'):
            where = f'{where}+final-announced-earlier'
        return super().violate(prop, rule, comp, where, detail)

    # ---- scripted producer -----------------------------------------------------------------
    def _on_tx(self, wire):
        try:
            p = tlvref.parse_interest(wire)
        except tlvref.TlvError:
            self.log('tx-other', wire=wire)
            return
        name = [bytes(c) for c in p.name]
        fs = self.scenario.get('fetch_from_seg')
        if name == self.prefix or (self.nseg == 0 and name == self.obj_name):
            key = 'disc'
        elif fs is not None and p.can_be_prefix and name == self.obj_name + [seg_comp(fs)]:
            key = 'disc'        # the caller named one segment of the object: that request plays the part of discovery
        elif name[:-1] == self.obj_name and name[-1][0] == tlvref.T_SEGMENT:
            key = tlvref.dec_nni(name[-1][2:])
        else:
            self.log('tx-other', wire=wire, name=name)
            self.violate('C19', 'unexpected-interest', 'segment_fetcher', 'name',
                         f'fetcher sent an Interest for an unexpected name ({len(name)} components)')
            return
        if p.lifetime in BYSTANDER_LIFETIMES:
            self.log('bystander-request', key=key)       # another consumer on the same application; never answered
            self.tok(f'B{key}')
            return
        idx = self.requests[key]
        self.requests[key] += 1
        self.log('request', key=key, idx=idx, cbp=p.can_be_prefix, mbf=p.must_be_fresh, lifetime=p.lifetime)
        self.tok(f'Q{key}')
        if key == 'disc':
            if not p.can_be_prefix:
                self.violate('C19', 'discovery-format', 'segment_fetcher', 'cbp', 'discovery Interest lacks CanBePrefix')
            pattern = self.scenario['loss'].get('disc', [])
            target = self.scenario['discovery']            # segment index answering discovery, or 'unseg'
            if fs is not None and name != self.prefix:
                target = fs
        else:
            pattern = self.scenario['loss'].get(str(key), [])
            target = key
        act = pattern[idx] if idx < len(pattern) else {'a': 'ok'}
        a = act['a']
        delay = act.get('delay_us', self.scenario.get('base_delay_us', 50))
        if a == 'lost':
            self.stats['fault.lost'] += 1
            return
        if a == 'nack':
            self.stats['fault.nack'] += 1
            self.after(delay, self._deliver, tlvref.make_nack(wire, act.get('reason', 150)))
            return
        dwire = self._data(target)
        if dwire is None:
            return                      # beyond the object: a real producer stays silent
        if a == 'dup':
            self.stats['fault.dup'] += 1
            self.after(delay, self._deliver, dwire)
            self.after(delay + act.get('gap_us', 1), self._deliver, dwire)
        elif a == 'late':
            self.stats['fault.late'] += 1
            self.after(delay, self._deliver, dwire)
        else:
            self.after(delay, self._deliver, dwire)

    def _data(self, target):
        sc = self.scenario
        if target == 'unseg' or self.nseg == 0:
            name = self.obj_name
            return bytes(enc.make_data(name, enc.MetaInfo(freshness_period=1000), seg_content(sc, 0), signer=DigestSha256Signer()))
        if target >= self.nseg + sc.get('stored_beyond', 0):
            return None
        final = seg_comp(self.nseg - 1)
        fo = sc['final_on']
        # 'early': only segments BEFORE the final one announce it (the final segment itself carries no FinalBlockId)
        put_final = fo == 'all' or (fo == 'last' and target == self.nseg - 1) or (fo == 'early' and (target < self.nseg - 1 or self.nseg == 1)) \
            or (fo == 'first' and target == 0)
        if sc.get('stored_beyond') and target >= self.nseg - 1:
            pass        # the producer holds more segments than the designated final one; the fetch must stop at the final
        mi = enc.MetaInfo(freshness_period=1000, final_block_id=final if put_final else None)
        return bytes(enc.make_data(self.obj_name + [seg_comp(target)], mi, seg_content(sc, target), signer=DigestSha256Signer()))

    def _deliver(self, wire):
        self.log('reply', delivered=self.face.deliver(wire))

    # ---- consumer --------------------------------------------------------------------------
    async def _main(self):
        tasks = [self.loop.create_task(self._consume(i, f.get('start_us', 0))) for i, f in enumerate(self.fetchers)]
        side = [self.loop.create_task(self._bystander(i, b)) for i, b in enumerate(self.bystanders)]
        self.harness_tasks.update(tasks + side)
        await asyncio.gather(*tasks)
        for t in side:
            t.cancel()
        if side:
            await asyncio.gather(*side, return_exceptions=True)
        if self.face.running:
            self.app.shutdown()

    async def _bystander(self, i, b):
        """a plain consumer on the same application asking for one of the object's names; its Interest is never answered
        by the scripted producer (but a Data fetched by a fetcher satisfies it like any other pending Interest)"""
        if b.get('at_us'):
            await asyncio.sleep(b['at_us'] / 1e6)
        name = self.obj_name + [seg_comp(b['seg'])] if b['seg'] != 'disc' else self.prefix
        self.log('bystander', i=i, seg=b['seg'])
        self.tok('b')
        try:
            await self.app.express_interest(enc.Name.to_bytes(name), lifetime=b['lifetime'], must_be_fresh=False,
                                            can_be_prefix=False, validator=None)
            self.log('bystander-end', i=i, out='data')
        except ndn_types.InterestTimeout:
            self.log('bystander-end', i=i, out='timeout')
        except asyncio.CancelledError:
            self.log('bystander-end', i=i, out='cancelled')
        except BaseException as e:
            self.log('bystander-end', i=i, out='other', exc=exc_brief(e))

    async def _consume(self, fid=0, start_us=0):
        from ndn.app_support.segment_fetcher import segment_fetcher
        sc = self.scenario
        if start_us:
            await asyncio.sleep(start_us / 1e6)
        # (with several fetches on one application each may bring a validator of its own)
        invalid = set(sc.get('invalid', [])) | set(self.fetchers[fid].get('invalid', []) if fid < len(self.fetchers) else [])
        world = self

        async def validator(name, sig):
            last = bytes(name[-1]) if len(name) else b''          # (an object may be named '/')
            k = tlvref.dec_nni(last[2:]) if last and last[0] == tlvref.T_SEGMENT else 0
            world.log('validate', seg=k)
            return k not in invalid
        fetch_name = '/' + '/'.join(sc['prefix'])
        if sc.get('fetch_from_seg') is not None:
            fetch_name = enc.Name.to_bytes(self.obj_name + [seg_comp(sc['fetch_from_seg'])])
        form = sc.get('name_form')
        if form and sc.get('fetch_from_seg') is None:
            comps = [bytes(c) for c in self.prefix]
            if form == 'list':
                fetch_name = list(comps)
            elif form == 'wire':
                fetch_name = bytearray(enc.Name.to_bytes(comps))
            elif form == 'iter':
                fetch_name = iter(comps)                # NonStrictName: any iterable of components, also a one-shot one
            elif form == 'gen':
                fetch_name = (c for c in comps)
        try:
            async for content in segment_fetcher(self.app, fetch_name, timeout=sc['lifetime'],
                                                 retry_times=sc['retry_times'], validator=validator,
                                                 must_be_fresh=sc.get('mbf', True)):
                self.yields[fid].append(None if content is None else bytes(content))
                self.log('yield', fid=fid, n=len(self.yields[fid]), content=None if content is None else bytes(content))
                self.tok('Y' if not self.multi else f'Y{fid}')
            self.log('end', fid=fid, out='complete')
        except ndn_types.InterestTimeout:
            self.log('end', fid=fid, out='timeout')
        except ndn_types.InterestNack as e:
            self.log('end', fid=fid, out='nack', reason=e.reason)
        except ndn_types.ValidationFailure:
            self.log('end', fid=fid, out='invalid')
        except ndn_types.InterestCanceled:
            self.log('end', fid=fid, out='canceled')
        except asyncio.CancelledError:
            self.log('end', fid=fid, out='cancelled-error')
        except BaseException as e:
            self.log('end', fid=fid, out='error', exc=exc_brief(e), where=innermost_ndn_frame(e))

    def execute(self, keep_events=False):
        try:
            def start():
                t = self.loop.create_task(self.app.main_loop(after_start=self._main()))
                self.harness_tasks.add(t)
            self.loop.call_soon(start)
            limit = self.run()
            if not limit:
                self._judge()
            res = self.result(limit, keep_events)
            res.nontrivial = self.nseg >= 2 and any(k.startswith('fault.') for k in self.stats)
            return res
        finally:
            self.close()

    # ---- oracle ----------------------------------------------------------------------------
    def _judge(self):
        sc = self.scenario
        ends = {e['fid']: e for e in reversed(self.events) if e['k'] == 'end'}
        if len(ends) < len(self.fetchers):
            self.violate('C19', 'hang', 'segment_fetcher', 'fetch', 'the fetch never finished')
            return
        for fid in sorted(ends):
            if ends[fid]['out'] == 'error':
                self.violate('C19', 'internal-error', 'segment_fetcher', ends[fid].get('where', '?'),
                             f'the fetch ended with {ends[fid].get("exc")}')
                return
        if self.multi:
            self._judge_multi(ends)
            return
        end = ends[0]
        R = max(sc['retry_times'], 1)       # every segment is requested at least once, whatever the number of attempts granted
        life = sc['lifetime'] * 1000
        exact = True
        for key, pattern in sc['loss'].items():
            for act in pattern:
                if act['a'] not in ('lost', 'nack') and act.get('delay_us', 50) > life - W_US:
                    exact = False       # a reply that late may or may not be in time: safety checks only
        if sc['discovery'] not in (0, 'unseg') and any(a['a'] in ('dup', 'late') for a in sc['loss'].get('disc', [])):
            exact = False           # a second/late copy of segment k may legitimately answer the later request for k
        # reference walk
        expected = []           # contents
        exp_end = 'complete'
        exp_requests = collections.OrderedDict()

        def walk(key, seg_for_validation):
            """-> 'ok' | 'timeout' | 'nack' | 'invalid'; records the number of Interests the producer must see"""
            pattern = sc['loss'].get(str(key), [])
            base = self.requests_before.get(key, 0)
            n = 0
            for i in range(R):
                act = pattern[base + i] if base + i < len(pattern) else {'a': 'ok'}
                n += 1
                if act['a'] == 'lost':
                    continue
                self.requests_before[key] = base + n
                exp_requests[key] = base + n
                if act['a'] == 'nack':
                    return 'nack'
                if seg_for_validation in set(sc.get('invalid', [])):
                    return 'invalid'
                return 'ok'
            self.requests_before[key] = base + n
            exp_requests[key] = base + n
            return 'timeout'

        self.requests_before = {}
        nseg = self.nseg
        disc = sc['discovery']
        unseg = nseg == 0 or disc == 'unseg'
        r = walk('disc', 0 if unseg else disc)
        if r != 'ok':
            exp_end = r
        elif unseg:
            expected.append(seg_content(sc, 0))
        else:
            start = 0
            done = False
            if disc == 0:
                expected.append(seg_content(sc, 0))
                start = 1
                done = nseg == 1
            k = start
            while not done:
                if k >= nseg:
                    exp_end = 'timeout'         # cannot happen: final is always designated
                    break
                r = walk(k, k)
                if r != 'ok':
                    exp_end = r
                    break
                expected.append(seg_content(sc, k))
                if k == nseg - 1:
                    break
                k += 1
        got = self.yields[0]
        # safety (always): what was yielded is a prefix of the object, in order, nothing twice or skipped
        full = [seg_content(sc, 0)] if unseg else [seg_content(sc, k) for k in range(nseg)]
        if got != full[:len(got)]:
            first = next((i for i, (a, b) in enumerate(zip(got, full)) if a != b), min(len(got), len(full)))
            self.violate('C19', 'order', 'segment_fetcher', 'yield',
                         f'yielded {len(got)} item(s); item #{first} is not segment {first} of the object '
                         f'(object has {len(full)} segment(s), discovery answered with {disc})')
            return
        if end['out'] == 'complete' and len(got) != len(full):
            self.violate('C19', 'incomplete', 'segment_fetcher', 'yield',
                         f'the fetch completed normally after {len(got)} of {len(full)} segment(s)')
            return
        if not exact:
            self.ambiguous += 1
            return
        if end['out'] != exp_end or got != expected:
            self.violate('C19', 'outcome', 'segment_fetcher', f'{exp_end}->{end["out"]}',
                         f'fetch ended {end["out"]} after {len(got)} segment(s); the loss pattern (retry_times={R}) '
                         f'implies {exp_end} after {len(expected)} segment(s)')
            return
        for key, n in exp_requests.items():
            seen = self.requests.get(key, 0)
            if seen != n:
                self.violate('C19', 'attempts', 'segment_fetcher', 'retry',
                             f'producer saw {seen} Interest(s) for {"discovery" if key == "disc" else f"segment {key}"}, '
                             f'the loss pattern with retry_times={R} implies {n}')
        for key, seen in self.requests.items():
            if key not in exp_requests:
                self.violate('C19', 'attempts', 'segment_fetcher', 'extra',
                             f'producer saw {seen} Interest(s) for {"discovery" if key == "disc" else f"segment {key}"} '
                             f'that the reference walk never requests')
        for t in self.loop.unretrieved_task_errors():
            if t in self.harness_tasks:
                continue
            e = t.exception()
            self.violate('C19', 'task-died', 'segment_fetcher', innermost_ndn_frame(e), f'background task ended with {exc_brief(e)}')


    def _judge_multi(self, ends):
        """several fetches of the same object (and plain consumers of its names) share one application: which reply
        answers whose Interest depends on the schedule, so attempts are not counted; what each fetch yields must still
        be the object, in order, complete when it ends normally - and when every reply arrives well in time and nothing
        is lost, refused or invalid, every fetch completes."""
        sc = self.scenario
        nseg = self.nseg
        unseg = nseg == 0 or sc['discovery'] == 'unseg'
        full = [seg_content(sc, 0)] if unseg else [seg_content(sc, k) for k in range(nseg)]
        life = sc['lifetime'] * 1000
        clean = not sc.get('invalid') and not any(f.get('invalid') for f in self.fetchers) and \
            sc.get('base_delay_us', 50) <= life - 3000 and \
            all(a['a'] == 'ok' and a.get('delay_us', sc.get('base_delay_us', 50)) <= life - 3000
                for pat in sc['loss'].values() for a in pat)
        for fid in sorted(ends):
            got = self.yields[fid]
            end = ends[fid]
            if got != full[:len(got)]:
                first = next((i for i, (a, b) in enumerate(zip(got, full)) if a != b), min(len(got), len(full)))
                self.violate('C19', 'order', 'segment_fetcher', 'yield-concurrent',
                             f'fetch {fid} of {len(ends)} yielded {len(got)} item(s); item #{first} is not segment {first} '
                             f'of the object ({len(full)} segment(s))')
                return
            own_invalid = set(sc.get('invalid', [])) | set(self.fetchers[fid].get('invalid', []) if fid < len(self.fetchers) else [])
            if not unseg and any(k in own_invalid for k in range(len(got))):
                self.violate('C19', 'yield-invalid', 'segment_fetcher', 'yield-concurrent',
                             f'fetch {fid} of {len(ends)} yielded segment {min(k for k in range(len(got)) if k in own_invalid)}, which '
                             f'its own validator rejects (another fetch on the same application accepts it)')
                return
            if end['out'] == 'complete' and len(got) != len(full):
                self.violate('C19', 'incomplete', 'segment_fetcher', 'yield-concurrent',
                             f'fetch {fid} of {len(ends)} on one application completed normally after {len(got)} of '
                             f'{len(full)} segment(s)')
                return
            if clean and end['out'] != 'complete':
                self.violate('C19', 'outcome', 'segment_fetcher', f'complete->{end["out"]}-concurrent',
                             f'fetch {fid} of {len(ends)} ended {end["out"]} after {len(got)} segment(s) although every '
                             f'reply was delivered in time and none was lost, refused or invalid')
                return
        if not clean:
            self.ambiguous += 1
        for t in self.loop.unretrieved_task_errors():
            if t in self.harness_tasks:
                continue
            e = t.exception()
            self.violate('C19', 'task-died', 'segment_fetcher', innermost_ndn_frame(e), f'background task ended with {exc_brief(e)}')


def generate(rng, seed, tier='quick'):
    nseg = rng.choice([0, 1, 1, 2, 3, 4, 5, 8, 12] + ([257, 258] if rng.random() < 0.03 else []))
    R = rng.randint(1, 4) if rng.random() < 0.92 else 0        # retry_times=0: no attempt is granted at all
    life = rng.choice([10, 20, 50, 200])
    if nseg == 0:
        discovery = 'unseg'
    else:
        discovery = rng.choice([0, 0, rng.randrange(nseg), rng.randrange(nseg), nseg - 1])
    loss = {}
    keys = ['disc'] + [str(k) for k in range(nseg)]
    mode = rng.choice(['clean', 'light', 'light', 'heavy', 'edge'])
    for key in keys:
        pat = []
        if mode == 'clean':
            pass
        elif mode == 'edge' and rng.random() < 0.5:
            nl = rng.choice([R - 1, R, R + 1])
            pat = [{'a': 'lost'}] * max(0, nl)
        else:
            p_loss = 0.15 if mode == 'light' else 0.45
            for _ in range(R + 2):
                x = rng.random()
                if x < p_loss:
                    pat.append({'a': 'lost'})
                elif x < p_loss + 0.05:
                    pat.append({'a': 'nack', 'reason': rng.choice([0, 50, 100, 150, 151, None]), 'delay_us': rng.choice([0, 50, 1000])})
                elif x < p_loss + 0.12:
                    pat.append({'a': 'dup', 'delay_us': rng.choice([0, 50]), 'gap_us': rng.choice([0, 1, 1000, life * 1000])})
                elif x < p_loss + 0.16:
                    pat.append({'a': 'late', 'delay_us': life * 1000 + rng.choice([-1000, -1, 0, 1, 1000, life * 500])})
                else:
                    pat.append({'a': 'ok', 'delay_us': rng.choice([0, 1, 50, 1000, max(0, life * 1000 - 3000)])})
        if pat:
            loss[key] = pat
    invalid = [k for k in range(max(nseg, 1)) if rng.random() < 0.06]
    extra = {}
    if nseg >= 2 and rng.random() < 0.08:
        # the caller names one segment of the object instead of its prefix: the whole object is delivered all the same
        extra['fetch_from_seg'] = rng.randrange(nseg)
        discovery = extra['fetch_from_seg']
    elif rng.random() < 0.3:
        # several consumers of the same object on one application
        nf = rng.choice([1, 2, 2, 3])
        extra['fetchers'] = [{'start_us': 0 if i == 0 or rng.random() < 0.5 else rng.choice([1, 50, 1000, life * 500, life * 1000])}
                             for i in range(nf)]
        if nf > 1 and nseg >= 1 and rng.random() < 0.3:
            # one of them trusts less: its validator rejects a segment the others accept
            extra['fetchers'][rng.randrange(nf)]['invalid'] = [rng.randrange(nseg)]
        nb = rng.choice([0, 0, 1, 2]) if nf > 1 else rng.choice([1, 1, 2])
        extra['bystanders'] = [{'at_us': rng.choice([0, 0, 50, 1000, life * 300]),
                                'seg': rng.randrange(max(nseg, 1)) if nseg and rng.random() < 0.9 else 'disc',
                                'lifetime': rng.choice(BYSTANDER_LIFETIMES)} for _ in range(nb)]
        extra['base_delay_us'] = rng.choice([0, 50, 1000, max(0, life * 1000 - 4000), max(0, life * 500)])
        if rng.random() < 0.6:
            loss, invalid = {}, []          # every reply in time: each fetch has to complete
    sc = _scenario(rng, seed, extra, nseg, discovery, loss, invalid, R, life, keys)
    if 'fetch_from_seg' in extra:
        sc['discovery'] = extra['fetch_from_seg']      # the named segment is what answers first
    return sc


def _scenario(rng, seed, extra, nseg, discovery, loss, invalid, R, life, keys):
    return {'engine': 'segfetch', 'property': 'C19', 'seed': seed, **extra,
            'config': {'turn_cost_us': rng.choice([0, 0, 1]), 'wall_gran_us': 1000, 'debug_log': rng.random() < 0.1},
            'prefix': rng.choice([['obj'], ['a', 'obj'], ['x', 'y', 'z'], ['obj'], ['a', 'obj'], ['x', 'y', 'z'], []]), 'version': rng.choice([None, 'v1', 'v1']),
            'nseg': nseg, 'sizes': [rng.choice([0, 1, 3, 10, 300]) for _ in range(max(nseg, 1))],
            'final_on': rng.choice(['last', 'all', 'all', 'early', 'first']) if nseg >= 2 else rng.choice(['last', 'all']),
            'discovery': discovery if nseg < 2 or rng.random() < 0.7 else 0, 'loss': loss, 'invalid': invalid,
            'retry_times': R, 'lifetime': life, 'mbf': rng.random() < 0.7,
            'name_form': rng.choice([None, None, None, 'list', 'wire', 'iter', 'gen']),
            'no_content': sorted(set(rng.randrange(max(nseg, 1)) for _ in range(rng.randint(1, 2)))) if rng.random() < 0.08 else [],
            'stored_beyond': rng.choice([0, 0, 0, 1, 3]) if nseg else 0,
            'ops': [{'seg': k} for k in keys]}


def execute(sc, keep_events=False):
    w = SegWorld(sc)
    return w.execute(keep_events)


def simplifications(sc):
    import copy
    for key in list(sc['loss']):
        c = copy.deepcopy(sc)
        del c['loss'][key]
        yield c
    for key, pat in sc['loss'].items():
        for i in range(len(pat)):
            if pat[i] != {'a': 'ok'}:
                c = copy.deepcopy(sc)
                c['loss'][key][i] = {'a': 'ok'}
                yield c
    if sc['invalid']:
        c = copy.deepcopy(sc)
        c['invalid'] = []
        yield c
    if sc['nseg'] > 1:
        c = copy.deepcopy(sc)
        c['nseg'] -= 1
        if c['discovery'] != 'unseg' and c['discovery'] >= c['nseg']:
            c['discovery'] = c['nseg'] - 1
        yield c
