"""Keychain engine (C15): KeychainSqlite3 + TpmFile over faulting storage.  A sampled history is first run
fault-free (recording the number K of storage steps), then re-run once per storage step with an
error injected there and once with a crash there (fault enumeration over the sampled history)."""
import copy
import datetime as _dt
import errno
import os
import shutil
import sqlite3

from simkit import tlvref
from simkit.core import World, HarnessError, innermost_ndn_frame, exc_brief, Result, canon
from engines.sigs import DssShim, pool

import ndn.encoding as enc
from ndn.encoding import Name

SCRATCH_ROOT = '/dev/shm' if os.access('/dev/shm', os.W_OK) else os.environ.get('TMPDIR', '/tmp')
MAX_POINTS = 200


class SimCrash(BaseException):
    """The process dies here: only what storage made durable survives."""


class Storage:
    """Counts storage steps inside library operations and injects the scripted fault."""

    def __init__(self):
        self.step = 0
        self.in_op = False
        self.fault_at = None
        self.fault_kind = None        # 'error' | 'crash'
        self.fired = None
        self.log = []

    def tick(self, kind, detail=''):
        if not self.in_op:
            return None
        self.step += 1
        self.log.append((self.step, kind, detail[:50]))
        if self.fault_at is not None and self.step == self.fault_at and self.fired is None:
            self.fired = (kind, detail[:60])
            return self.fault_kind
        return None


class ProxyCursorConn:
    def __init__(self, st, real):
        self.st = st
        self.real = real

    def _maybe(self, kind, detail):
        f = self.st.tick(kind, detail)
        if f == 'error':
            # like SQLite on SQLITE_IOERR / SQLITE_FULL: the statement fails and the open transaction is rolled back
            self.real.rollback()
            raise sqlite3.OperationalError('disk I/O error (simulated)')
        if f == 'busy':
            # like SQLITE_BUSY / "database is locked": only this statement fails, the open transaction stays open
            raise sqlite3.OperationalError('database is locked (simulated)')
        if f == 'crash':
            raise SimCrash()

    def execute(self, sql, params=()):
        self._maybe('db-execute', ' '.join(sql.split()[:3]))
        return self.real.execute(sql, params)

    def executescript(self, script):
        self._maybe('db-script', '')
        return self.real.executescript(script)

    def commit(self):
        self._maybe('db-commit', '')
        return self.real.commit()

    def rollback(self):
        return self.real.rollback()

    def close(self):
        return self.real.close()

    def cursor(self):
        return self.real.cursor()


class ProxySqlite:
    """Stand-in for the sqlite3 module inside keychain_sqlite3."""

    def __init__(self, st):
        self.st = st
        self.conns = []
        for n in ('Error', 'OperationalError', 'IntegrityError', 'DatabaseError', 'ProgrammingError', 'Row'):
            setattr(self, n, getattr(sqlite3, n))

    def connect(self, path, *a, **k):
        c = ProxyCursorConn(self.st, sqlite3.connect(path, *a, **k))
        self.conns.append(c)
        return c


class FaultyFile:
    def __init__(self, st, real, path):
        self.st = st
        self.real = real
        self.path = path

    def write(self, data):
        f = self.st.tick('file-write', os.path.basename(self.path)[:12])
        if f is None:
            return self.real.write(data)
        if f == 'busy':
            raise OSError(errno.EAGAIN, 'Resource temporarily unavailable (simulated)')     # nothing written
        self.real.write(data[:len(data) // 2])        # torn write: half of the bytes reach the disk
        self.real.flush()
        if f == 'crash':
            raise SimCrash()
        raise OSError(errno.ENOSPC, 'No space left on device (simulated)')

    def read(self, *a):
        return self.real.read(*a)

    def close(self):
        return self.real.close()

    def __enter__(self):
        return self

    def __exit__(self, *exc):
        self.real.close()
        return False


class FakeOsForTpm:
    def __init__(self, st):
        self.st = st
        self.path = os.path

    def remove(self, path):
        f = self.st.tick('file-remove', os.path.basename(path)[:12])
        if f in ('error', 'busy'):
            raise OSError(errno.EIO, 'Input/output error (simulated)')
        if f == 'crash':
            raise SimCrash()
        return os.remove(path)

    def makedirs(self, *a, **k):
        return os.makedirs(*a, **k)


class PoolEcc:
    """ECC.generate with a seeded random source."""

    def __init__(self, srand):
        self.srand = srand

    def generate(self, **kw):
        from Cryptodome.PublicKey import ECC
        return ECC.generate(randfunc=self.srand.randfunc, **kw)

    def import_key(self, *a, **k):
        from Cryptodome.PublicKey import ECC
        return ECC.import_key(*a, **k)


class PoolRsa:
    """RSA.generate served from the committed key pool (generation itself is too slow to sample)."""

    def __init__(self):
        self.i = 0

    def generate(self, bits, *a, **k):
        from Cryptodome.PublicKey import RSA
        ks = pool()['rsa']
        self.i += 1
        return RSA.import_key(bytes.fromhex(ks[self.i % len(ks)]['prv']))

    def import_key(self, *a, **k):
        from Cryptodome.PublicKey import RSA
        return RSA.import_key(*a, **k)


def fake_datetime_class(wall):
    class FakeDateTime(_dt.datetime):
        @classmethod
        def now(cls, tz=None):
            return _dt.datetime.fromtimestamp(wall.now_us() / 1e6, tz)
    return FakeDateTime


# ---- model ------------------------------------------------------------------------------------


def nb(name):
    return bytes(Name.to_bytes(name))


class Model:
    def __init__(self):
        self.ids = {}           # id bytes -> {'keys': {key bytes -> {'bits':..., 'type':..., 'certs': {cert bytes -> data}, 'dcert': bytes|None}}, 'dkey': bytes|None}
        self.did = None
        self.priv = set()
        self.deleted_keys = set()

    def shape(self):
        out = {}
        for i, rec in self.ids.items():
            out[i] = {'dkey': rec['dkey'], 'keys': {k: {'ncert': len(kr['certs']), 'has_dcert': kr['dcert'] is not None,
                                                          'issuers': sorted(_issuer(c) for c in kr['certs'])}
                                                     for k, kr in rec['keys'].items()}}
        return {'ids': out, 'did': self.did, 'priv': sorted(self.priv)}


def _issuer(cert_name_bytes):
    comps = Name.from_bytes(cert_name_bytes)
    return bytes(comps[-2]) if len(comps) >= 2 else b''


def raw_model(db_path, tpm_dir, key_file_name):
    """Independent read of what storage holds (separate connection, no library code)."""
    m = Model()
    conn = sqlite3.connect(db_path)
    try:
        ids = {}
        for rid, ident, isd in conn.execute('SELECT id, identity, is_default FROM identities'):
            ids[rid] = bytes(ident)
            m.ids[bytes(ident)] = {'keys': {}, 'dkey': None}
            if isd:
                m.did = bytes(ident) if m.did is None else 'MULTIPLE'
        keys = {}
        orphans = []
        for rid, iid, kname, bits, isd in conn.execute('SELECT id, identity_id, key_name, key_bits, is_default FROM keys'):
            if iid not in ids:
                orphans.append(('key', bytes(kname)))
                continue
            rec = m.ids[ids[iid]]
            rec['keys'][bytes(kname)] = {'bits': bytes(bits), 'certs': {}, 'dcert': None}
            keys[rid] = (ids[iid], bytes(kname))
            if isd:
                rec['dkey'] = bytes(kname) if rec['dkey'] is None else 'MULTIPLE'
        for rid, kid, cname, cdata, isd in conn.execute('SELECT id, key_id, certificate_name, certificate_data, is_default FROM certificates'):
            if kid not in keys:
                orphans.append(('cert', bytes(cname)))
                continue
            i, k = keys[kid]
            kr = m.ids[i]['keys'][k]
            kr['certs'][bytes(cname)] = bytes(cdata)
            if isd:
                kr['dcert'] = bytes(cname) if kr['dcert'] is None else 'MULTIPLE'
        m.orphans = orphans
    finally:
        conn.close()
    files = set(os.listdir(tpm_dir)) if os.path.isdir(tpm_dir) else set()
    m.files = files
    for rec in m.ids.values():
        for k in rec['keys']:
            if key_file_name(k) in files:
                m.priv.add(k)
    return m


# ---- world ------------------------------------------------------------------------------------


class KcWorld(World):
    def __init__(self, scenario, fault_at=None, fault_kind=None, tag='ff'):
        super().__init__(scenario, max_steps=10, max_time=10.0)
        self.set_ndn_log_level(False)
        self.st = Storage()
        self.st.fault_at = fault_at
        self.st.fault_kind = fault_kind
        import ndn.security.keychain.keychain_sqlite3 as ks
        import ndn.security.tpm.tpm_file as tf
        import ndn.security.tpm.tpm as tpm_mod
        import ndn.security.signer.sha256_ecdsa_signer as ecs
        import ndn.app_support.security_v2 as sv2
        self.ks, self.tf = ks, tf
        self.proxy = ProxySqlite(self.st)
        self.seams.set(ks, 'sqlite3', self.proxy)
        self.seams.set(tf, 'os', FakeOsForTpm(self.st))
        self.seams.set(tf, 'open', self._open)
        self.seams.set(tf, 'ECC', PoolEcc(self.srand))
        self.seams.set(tf, 'RSA', PoolRsa())
        self.seams.set(tpm_mod, 'get_random_bytes', self.srand.get_random_bytes)
        self.seams.set(ecs, 'DSS', DssShim(self.srand))
        self.seams.set(sv2, 'datetime', fake_datetime_class(self.wall))
        self.dir = os.path.join(SCRATCH_ROOT, f'ndn-verif-{os.getpid()}', f'kc-{scenario.get("seed", 0)}-{tag}')
        shutil.rmtree(self.dir, ignore_errors=True)
        os.makedirs(self.dir, exist_ok=True)
        self.db = os.path.join(self.dir, 'pib.db')
        self.tpm_dir = os.path.join(self.dir, 'ndnsec-key-file')
        self.kc = None
        self.tpm = None
        self.model = Model()
        self.keys_created = []      # key names in creation order (bytes), for references
        self.certs_created = []
        self.relaxed = False

    def _open(self, path, mode='r', *a, **k):
        real = open(path, mode, *a, **k)
        if 'w' in mode:
            return FaultyFile(self.st, real, path)
        return real

    def key_file(self, key_bytes):
        return self.tf.TpmFile._to_file_name(key_bytes)

    # ---- lifecycle -----------------------------------------------------------------------
    def open_store(self, create):
        if create:
            self.ks.KeychainSqlite3.initialize(self.db, 'tpm-file', self.tpm_dir)
        self.tpm = self.tf.TpmFile(self.tpm_dir)
        self.kc = self.ks.KeychainSqlite3(self.db, self.tpm)

    def hard_close(self):
        """crash: uncommitted work disappears, every Python object of the keychain is dropped"""
        for c in self.proxy.conns:
            try:
                c.real.rollback()
                c.real.close()
            except Exception:
                pass
        self.proxy.conns = []
        if self.kc is not None:
            self.kc.conn = None
        self.kc = None
        self.tpm = None

    def cleanup(self):
        self.hard_close()
        shutil.rmtree(self.dir, ignore_errors=True)
        try:
            os.rmdir(os.path.dirname(self.dir))     # the per-process parent, once empty
        except OSError:
            pass

    # ---- reference semantics of one op on the model ------------------------------------------
    def resolve(self, op):
        """name references -> concrete names (or None when the reference dangles)"""
        o = dict(op)
        if 'id' in o:
            o['_id'] = '/id/' + o['id']
        if 'key' in o:
            o['_key'] = self.keys_created[o['key'] % len(self.keys_created)] if self.keys_created else None
        if 'cert' in o:
            o['_cert'] = self.certs_created[o['cert'] % len(self.certs_created)] if self.certs_created else None
        if 'issuer' in o:
            o['_issuer'] = self.keys_created[o['issuer'] % len(self.keys_created)] if self.keys_created else None
        if 'named_for' in o:
            o['_named_for'] = self.keys_created[o['named_for'] % len(self.keys_created)] if self.keys_created else None
        return o

    def find_key(self, m, kname):
        for i, rec in m.ids.items():
            if kname in rec['keys']:
                return i, rec
        return None, None

    def find_cert(self, m, cname):
        for i, rec in m.ids.items():
            for k, kr in rec['keys'].items():
                if cname in kr['certs']:
                    return i, k, kr
        return None, None, None


def apply_model(m, o, created):
    """Apply op o to model m. -> ('ok', info) | ('raise', why).  `created` carries names of things the real op created."""
    k = o['op']
    if k in ('touch_identity', 'new_identity'):
        i = nb(o['_id'])
        if i in m.ids:
            if k == 'new_identity':
                return 'raise', 'exists'
        else:
            m.ids[i] = {'keys': {}, 'dkey': None}
            if k == 'touch_identity' and created.get('key') is not None:
                _add_key(m, i, created['key'], created['bits'], created['cert'], created['cert_data'])
        if m.did is None:
            m.did = i
        return 'ok', None
    if k == 'new_key':
        i = nb(o['_id'])
        if i not in m.ids:
            return 'raise', 'no-identity'
        if created.get('key') is None:
            return 'ok', 'unknown-name'
        if created['key'] in m.ids[i]['keys']:
            return 'raise', 'exists'
        _add_key(m, i, created['key'], created['bits'], created['cert'], created['cert_data'])
        return 'ok', None
    if k == 'import_cert':
        kn = o['_key']
        i, rec = _find_key(m, kn)
        if rec is None:
            return 'raise', 'no-key'
        kr = rec['keys'][kn]
        if created.get('cert') is None:
            return 'ok', 'unknown-name'
        if created['cert'] in kr['certs'] or _find_cert(m, created['cert'])[2] is not None:
            return 'raise', 'exists'        # certificate names are unique in the store, whichever key holds them
        kr['certs'][created['cert']] = created['cert_data']
        if kr['dcert'] is None:
            kr['dcert'] = created['cert']
        return 'ok', None
    if k == 'set_default_identity':
        i = nb(o['_id'])
        if i in m.ids:
            m.did = i
        return 'ok', None
    if k == 'set_default_key':
        kn = o['_key']
        i, rec = _find_key(m, kn)
        if rec is None:
            return 'raise', 'no-key'
        rec['dkey'] = kn
        return 'ok', None
    if k == 'set_default_cert':
        cn = o['_cert']
        i, kn, kr = _find_cert(m, cn)
        if kr is None:
            return 'raise', 'no-cert'
        kr['dcert'] = cn
        return 'ok', None
    if k == 'set_default_key_via':
        # Identity.set_default_key called on SOME existing identity with a key name that may be stale (deleted) or
        # belong to another identity: a name that is no key changes nothing; a key becomes the default of its owner
        i = nb(o['_id'])
        if i not in m.ids or o['_key'] is None:
            return 'raise', 'no-identity'
        oi, rec = _find_key(m, o['_key'])
        if rec is not None:
            rec['dkey'] = o['_key']
        return 'ok', None
    if k == 'set_default_cert_via':
        oi, rec = _find_key(m, o['_key']) if o['_key'] is not None else (None, None)
        if rec is None or o['_cert'] is None:
            return 'raise', 'no-key'
        ci, ckn, kr = _find_cert(m, o['_cert'])
        if kr is not None:
            kr['dcert'] = o['_cert']
        return 'ok', None
    if k == 'del_cert':
        cn = o['_cert']
        i, kn, kr = _find_cert(m, cn)
        if kr is None:
            return 'ok', 'noop'
        del kr['certs'][cn]
        if kr['dcert'] == cn:
            kr['dcert'] = None
        return 'ok', None
    if k == 'del_key':
        kn = o['_key']
        i, rec = _find_key(m, kn)
        if rec is None:
            return 'raise', 'no-key'
        del rec['keys'][kn]
        if rec['dkey'] == kn:
            rec['dkey'] = None
        m.priv.discard(kn)
        m.deleted_keys.add(kn)
        return 'ok', None
    if k == 'del_identity':
        i = nb(o['_id'])
        if i not in m.ids:
            return 'raise', 'no-identity'
        for kn in list(m.ids[i]['keys']):
            m.priv.discard(kn)
            m.deleted_keys.add(kn)
        del m.ids[i]
        if m.did == i:
            m.did = None
        return 'ok', None
    raise HarnessError(f'apply_model: {k}')


def _add_key(m, i, kn, bits, cn, cdata):
    rec = m.ids[i]
    rec['keys'][kn] = {'bits': bits, 'certs': {cn: cdata} if cn is not None else {}, 'dcert': cn}
    if rec['dkey'] is None:
        rec['dkey'] = kn
    m.priv.add(kn)
    m.deleted_keys.discard(kn)


def _find_key(m, kn):
    for i, rec in m.ids.items():
        if kn in rec['keys']:
            return i, rec
    return None, None


def _find_cert(m, cn):
    for i, rec in m.ids.items():
        for k, kr in rec['keys'].items():
            if cn in kr['certs']:
                return i, k, kr
    return None, None, None


# ---- the run ----------------------------------------------------------------------------------


class Runner:
    def __init__(self, scenario, fault_at=None, fault_kind=None, tag='ff'):
        self.sc = scenario
        self.w = KcWorld(scenario, fault_at, fault_kind, tag)
        self.fault_kind = fault_kind
        self.events = []
        self.ops_done = 0
        self.held = None        # Identity / Key objects the client keeps across later operations

    def viol(self, rule, where, detail):
        comp = 'fault-free' if self.w.st.fault_at is None else self.fault_kind
        self.w.violate('C15', rule, comp, where, detail)

    def lib(self, fn, *a, **k):
        """call into the library with storage-step counting on"""
        self.w.st.in_op = True
        try:
            return fn(*a, **k)
        finally:
            self.w.st.in_op = False

    def run(self):
        w = self.w
        try:
            w.open_store(create=True)
            for idx, op in enumerate(self.sc['ops']):
                w.wall.skew_us += 1_000_000
                self._note_gone()
                o = w.resolve(op)
                if any(o.get(k) is None for k in ('_key', '_cert', '_issuer') if k in o):
                    self.events.append((idx, op['op'], 'skipped-dangling'))
                    continue
                if op['op'] == 'reopen':
                    self.lib(w.kc.shutdown)
                    w.kc = None
                    w.open_store(create=False)
                    self.events.append((idx, 'reopen'))
                    self.held = None
                    self.check_views(f'after reopen #{idx}')
                    continue
                if op['op'] == 'crash':
                    w.hard_close()
                    w.open_store(create=False)
                    self.events.append((idx, 'crash-reopen'))
                    self.held = None
                    w.stats['fault.crash_op'] += 1
                    self.check_views(f'after crash/reopen #{idx}')
                    continue
                if op['op'] == 'get_signer':
                    self.do_get_signer(idx, o)
                    continue
                if op['op'] == 'hold':
                    self.do_hold(idx, o)
                    continue
                if op['op'] == 'use_held':
                    self.do_use_held(idx)
                    continue
                if op['op'] == 'probe_deleted_signer':
                    # signer for a certificate (cached by the keychain) -> delete the key -> ask again: must be refused
                    kn = o['_key']
                    i, rec = _find_key(w.model, kn)
                    if rec is None or not rec['keys'][kn]['certs']:
                        self.events.append((idx, op['op'], 'skipped'))
                        continue
                    cn = sorted(rec['keys'][kn]['certs'])[0]
                    cref = w.certs_created.index(cn) if cn in w.certs_created else None
                    if cref is None:
                        continue
                    sub = {'op': 'get_signer', 'shape': 'cert', 'id': 'a', 'key': 0, 'cert': cref, '_id': '/id/a', '_key': kn, '_cert': cn}
                    self.do_get_signer(idx, dict(sub))
                    self.do_mutation(idx, {'op': 'del_key', 'key': o['key'], '_key': kn})
                    self.do_get_signer(idx, dict(sub))
                    continue
                self.do_mutation(idx, o)
                if w.violations and w.st.fault_at is None:
                    pass
            return self.finish()
        finally:
            w.cleanup()
            w.close()

    # ---- mutations -------------------------------------------------------------------------
    def call_op(self, o):
        """perform op o through the public API -> dict of created names (for the model)"""
        w = self.w
        kc = w.kc
        k = o['op']
        created = {}
        if k == 'touch_identity':
            existed = o['_id'] in kc
            ident = kc.touch_identity(o['_id'])
            if not existed:
                key = ident.default_key()
                cert = key.default_cert()
                created = {'key': nb(key.name), 'bits': bytes(key.key_bits), 'cert': nb(cert.name), 'cert_data': bytes(cert.data)}
        elif k == 'new_identity':
            kc.new_identity(o['_id'])
        elif k == 'new_key':
            kw = {'key_id': o['key_id']} if o.get('key_id') else {}
            if o.get('key_id_type'):
                kw['key_id_type'] = o['key_id_type']
            if o['type'] == 'rsa':
                kw['key_size'] = 1024
            key = kc.new_key(o['_id'], o['type'], **kw)
            cert = key.default_cert() if key.has_default_cert() else None
            certs = list(key)
            cname = nb(cert.name) if cert else (nb(certs[0]) if certs else None)
            created = {'key': nb(key.name), 'bits': bytes(key.key_bits), 'cert': cname,
                       'cert_data': bytes(key[Name.from_bytes(cname)].data) if cname else None}
        elif k == 'import_cert':
            created = self.make_import(o)
            kc.import_cert(Name.from_bytes(o['_key']), Name.from_bytes(created['cert']), created['cert_data'])
        elif k == 'set_default_identity':
            kc.set_default_identity(o['_id'])
        elif k == 'set_default_key':
            i, _rec = _find_key(w.model, o['_key'])
            if i is None:
                raise KeyError('no such key (harness)')
            kc[Name.from_bytes(i)].set_default_key(Name.from_bytes(o['_key']))
        elif k == 'set_default_cert':
            i, kn, _kr = _find_cert(w.model, o['_cert'])
            if kn is None:
                raise KeyError('no such cert (harness)')
            kc[Name.from_bytes(i)][Name.from_bytes(kn)].set_default_cert(Name.from_bytes(o['_cert']))
        elif k == 'set_default_key_via':
            if o['_key'] is None:
                raise KeyError('no key yet (harness)')
            kc[o['_id']].set_default_key(Name.from_bytes(o['_key']))
        elif k == 'set_default_cert_via':
            i, _rec = _find_key(w.model, o['_key']) if o['_key'] is not None else (None, None)
            if i is None or o['_cert'] is None:
                raise KeyError('no such key (harness)')
            kc[Name.from_bytes(i)][Name.from_bytes(o['_key'])].set_default_cert(Name.from_bytes(o['_cert']))
        elif k == 'del_cert':
            i, kn, _kr = _find_cert(w.model, o['_cert']) if o.get('via_view') and o.get('_cert') else (None, None, None)
            if kn is not None:
                kc[Name.from_bytes(i)][Name.from_bytes(kn)].del_cert(Name.from_bytes(o['_cert']))      # through the Key view
            else:
                kc.del_cert(Name.from_bytes(o['_cert']))
        elif k == 'del_key':
            i, _rec = _find_key(w.model, o['_key']) if o.get('via_view') and o.get('_key') else (None, None)
            if i is not None:
                kc[Name.from_bytes(i)].del_key(Name.from_bytes(o['_key']))                             # through the Identity view
            else:
                kc.del_key(Name.from_bytes(o['_key']))
        elif k == 'del_identity':
            kc.del_identity(o['_id'])
        else:
            raise HarnessError(f'op {k}')
        return created

    def make_import(self, o):
        """a certificate for key o['_key'] issued by key o['_issuer'] (real derive_cert, issuer's real signer)"""
        from ndn.app_support.security_v2 import derive_cert
        w = self.w
        st_in = w.st.in_op
        w.st.in_op = False
        try:
            if o.get('foreign_cert') and o.get('_cert'):
                # an EXISTING certificate (name and data as stored, possibly of another key) imported under this key
                ci, ckn, ckr = _find_cert(w.model, o['_cert'])
                if ckr is not None:
                    return {'cert': o['_cert'], 'cert_data': ckr['certs'][o['_cert']]}
            subject = o['_key']
            if o.get('_named_for') and _find_key(w.model, o['_named_for'])[1] is not None:
                # a certificate OF ANOTHER KEY (its name and content say so) filed under this key: import_cert does not
                # tie the certificate name to the key it is imported under
                subject = o['_named_for']
            i, rec = _find_key(w.model, subject)
            bits = rec['keys'][subject]['bits'] if rec else b'\x00'
            issuer = o['_issuer']
            try:
                signer = w.tpm.get_signer(Name.from_bytes(issuer))
            except Exception:
                from ndn.security import DigestSha256Signer
                signer = DigestSha256Signer()
            start = _dt.datetime.fromtimestamp(w.wall.now_us() / 1e6, _dt.UTC)
            cname, cdata = derive_cert(Name.from_bytes(subject), 'imp' + str(o.get('n', 0)), bits, signer, start, 3600)
            return {'cert': nb(cname), 'cert_data': bytes(cdata)}
        finally:
            w.st.in_op = st_in

    def do_mutation(self, idx, o):
        w = self.w
        pre = copy.deepcopy(w.model)
        fired_before = w.st.fired
        try:
            created = self.lib(self.call_op, o)
            err = None
        except SimCrash:
            w.stats['fault.crash'] += 1
            self.after_fault(idx, o, pre, crashed=True)
            return
        except Exception as e:
            created = {}
            err = e
        faulted = w.st.fired is not None and fired_before is None
        if faulted:
            w.stats['fault.' + w.st.fired[0]] += 1
            if err is None:
                # the fault was swallowed by the library (e.g. ignored remove error): judge like a failed op
                self.after_fault(idx, o, pre, crashed=False, swallowed=True, created=created)
            else:
                self.after_fault(idx, o, pre, crashed=False)
            return
        # fault-free semantics
        m2 = copy.deepcopy(w.model)
        if err is None:
            res, why = apply_model(m2, o, created)
            if res == 'raise':
                self.viol('accepted-invalid', o['op'], f'op #{idx} {o["op"]}({_d(o)}) succeeded; the model says it must be refused ({why})')
                w.model = raw_model(w.db, w.tpm_dir, w.key_file)
            else:
                w.model = m2
                for kk in ('key',):
                    if created.get(kk) is not None and created[kk] not in w.keys_created:
                        w.keys_created.append(created[kk])
                if created.get('cert') is not None and created['cert'] not in w.certs_created:
                    w.certs_created.append(created['cert'])
            self.events.append((idx, o['op'], 'ok', sorted(created)))
        else:
            res, why = apply_model(m2, o, {'key': None, 'bits': b'', 'cert': None, 'cert_data': b''}) \
                if o['op'] not in ('touch_identity', 'new_key', 'import_cert') else self.would_raise(m2, o)
            if res != 'raise':
                self.viol('refused-valid', innermost_ndn_frame(err),
                          f'op #{idx} {o["op"]}({_d(o)}) raised {exc_brief(err)}; the model says it is valid')
                w.model = raw_model(w.db, w.tpm_dir, w.key_file)
                self.relaxed = True
            elif not isinstance(err, (KeyError, ValueError, sqlite3.IntegrityError)):
                self.viol('refusal-type', innermost_ndn_frame(err), f'op #{idx} {o["op"]} refused with {exc_brief(err)}')
            self.events.append((idx, o['op'], 'raised', type(err).__name__))
        self.check_views(f'after op #{idx} {o["op"]}')

    def would_raise(self, m, o):
        k = o['op']
        if k == 'touch_identity':
            return 'ok', None
        if k == 'new_key':
            i = nb(o['_id'])
            if i not in m.ids:
                return 'raise', 'no-identity'
            if o.get('key_id'):
                kn = nb(Name.from_bytes(i) + [enc.Component.from_str('KEY'), enc.Component.from_str(o['key_id'])])
                if kn in m.ids[i]['keys']:
                    return 'raise', 'exists'
            return 'ok', None
        if k == 'import_cert':
            i, rec = _find_key(m, o['_key'])
            if rec is None:
                return 'raise', 'no-key'
            if o.get('foreign_cert') and o.get('_cert') and _find_cert(m, o['_cert'])[2] is not None:
                return 'raise', 'exists'
            return 'ok', None
        return 'ok', None

    # ---- behaviour under a fault ---------------------------------------------------------
    def after_fault(self, idx, o, pre, crashed, swallowed=False, created=None):
        """The op was hit by the injected fault.  Adopt what storage shows, check the untouched entities, check
        the views, then repeat the op fault-free: it must complete the op or refuse cleanly on a store that
        already shows the op's full effect."""
        w = self.w
        if crashed:
            w.hard_close()
            w.open_store(create=False)
        # what an independent reader sees (committed data only) - and what the library's own connection sees
        adopted = raw_model(w.db, w.tpm_dir, w.key_file)
        touched_ids = self.touched(o, pre)
        for i, rec in pre.ids.items():
            if i in touched_ids:
                continue
            if i not in adopted.ids or _strip(adopted.ids[i]) != _strip(rec):
                self.viol('collateral-damage', o['op'],
                          f'op #{idx} {o["op"]}({_d(o)}) hit by {w.st.fired}: identity {_s(i)} that the op does not touch changed')
        if pre.did is not None and pre.did not in touched_ids and adopted.did != pre.did and o['op'] != 'set_default_identity':
            self.viol('collateral-damage', o['op'], f'op #{idx} {o["op"]} hit by {w.st.fired}: default identity changed from {_s(pre.did)} to {_s(adopted.did)}')
        # somebody who does not know of the failure tries to sign with the key the operation was to create
        probe_cert = None
        if o['op'] == 'new_key' and o.get('key_id') and not crashed and o.get('probe_between', True):
            kn0 = Name.normalize(o['_id']) + [enc.Component.from_str('KEY'), enc.Component.from_str(o['key_id'])]
            if _find_key(adopted, nb(kn0))[1] is None:
                probe_cert = kn0 + [enc.Component.from_str('self'), enc.Component.from_str('v=1')]
                try:
                    self.lib(w.kc.get_signer, {'cert': probe_cert})
                    w.stats['probe.signer_between_failure_and_repeat'] += 1
                except Exception:
                    pass            # refusing is fine: the key is not listed
        # repeat the op without faults
        self.events.append((idx, o['op'], 'faulted', w.st.fired, 'crash' if crashed else 'error'))
        try:
            self.lib(self.call_op, o)
            rep_err = None
        except Exception as e:
            rep_err = e
        final = raw_model(w.db, w.tpm_dir, w.key_file)
        where = f'op #{idx} {o["op"]}({_d(o)}) failed part-way at storage step {w.st.fault_at} {w.st.fired}'
        chk = copy.deepcopy(pre)
        must_refuse = (self.would_raise(chk, o) if o['op'] in ('touch_identity', 'new_key', 'import_cert')
                       else apply_model(chk, o, {}))[0] == 'raise'
        if rep_err is not None and must_refuse:
            pass            # the operation is invalid on this store anyway: any refusal will do
        elif rep_err is not None:
            if not isinstance(rep_err, (KeyError, ValueError)) or isinstance(rep_err, sqlite3.Error):
                self.viol('repeat-misbehaves', innermost_ndn_frame(rep_err),
                          f'{where}; repeating it raised {exc_brief(rep_err)}')
        else:
            k = o['op']
            if k in ('touch_identity', 'new_identity') and nb(o['_id']) not in final.ids:
                self.viol('repeat-no-effect', k, f'{where}; repeating it returned normally but the identity does not exist')
            elif k == 'touch_identity' and nb(o['_id']) not in pre.ids and not final.ids[nb(o['_id'])]['keys']:
                # documented: an identity created by touch_identity has a default key and self-signed certificate
                self.viol('repeat-no-effect', k, f'{where}; repeating it returned normally but the identity it was to create '
                                                  f'has no key (no signer can be obtained for it)')
            if k == 'new_key' and o.get('key_id'):
                kn = nb(Name.normalize(o['_id']) + [enc.Component.from_str('KEY'), enc.Component.from_str(o['key_id'])])
                rec = final.ids.get(nb(o['_id']))
                if rec is None or kn not in rec['keys'] or not rec['keys'][kn]['certs'] or kn not in final.priv:
                    self.viol('repeat-no-effect', k, f'{where}; repeating it returned normally but the key is not complete '
                                                      f'(row, certificate and private key)')
            if k == 'del_key' and _find_key(final, o['_key'])[1] is not None:
                self.viol('repeat-no-effect', k, f'{where}; repeating it returned normally but the key still exists')
            if k == 'del_identity' and nb(o['_id']) in final.ids:
                self.viol('repeat-no-effect', k, f'{where}; repeating it returned normally but the identity still exists')
            if k == 'del_cert' and _find_cert(final, o['_cert'])[2] is not None:
                self.viol('repeat-no-effect', k, f'{where}; repeating it returned normally but the certificate still exists')
        # from here on the model is what storage holds
        pre_keys = {kn for rec in pre.ids.values() for kn in rec['keys']}
        fin_keys = {kn for rec in final.ids.values() for kn in rec['keys']}
        final.deleted_keys = (set(pre.deleted_keys) | (pre_keys - fin_keys)) - fin_keys
        w.model = final
        for i, rec in final.ids.items():
            for kn, kr in rec['keys'].items():
                if kn not in w.keys_created:
                    w.keys_created.append(kn)
                for cn in kr['certs']:
                    if cn not in w.certs_created:
                        w.certs_created.append(cn)
        if getattr(final, 'orphans', None):
            self.viol('orphan-rows', o['op'], f'{where}; after repeating it rows without owner remain: {final.orphans[:3]}')
        # a key the store lists must be usable: once the interrupted operation has been repeated (completed or cleanly
        # refused) no listed key may lack its private key - unless it lacked it before this operation already
        pre_keys_all = {kn for rec in pre.ids.values() for kn in rec['keys']}
        for rec in final.ids.values():
            for kn in rec['keys']:
                if kn not in final.priv and not (kn in pre_keys_all and kn not in pre.priv):
                    self.viol('key-without-private-key', o['op'],
                              f'{where}; after repeating it ({"refused: " + exc_brief(rep_err) if rep_err else "completed"}) the store '
                              f'lists key {_s(kn)} but its private key does not exist')
        if probe_cert is not None and rep_err is None:
            # ... and signs again once the operation has been repeated successfully: with THIS key's private key
            kn = nb(probe_cert[:-2])
            rec = _find_key(final, kn)[1]
            if rec is not None:
                try:
                    signer = self.lib(w.kc.get_signer, {'cert': probe_cert})
                    p = tlvref.parse_data(bytes(enc.make_data('/signed/after/repeat', enc.MetaInfo(), b'x', signer=signer)))
                    si = tlvref.elements(p.sig_info)
                    st = tlvref.find(si, tlvref.T_SIG_TYPE)
                    styp = int.from_bytes(p.sig_info[st[2]:st[3]], 'big')
                    if not verify_sig(rec['keys'][kn]['bits'], styp, p.signed_portion, p.sig_value):
                        self.viol('signer-wrong-key', 'after-repeat',
                                  f'{where}; after repeating it, a signer for key {_s(kn)} signs with a private key that does not '
                                  f'belong to the public key the store lists (the private key of the failed attempt)')
                except Exception:
                    pass
        self.check_views(f'after faulted op #{idx} {o["op"]} and its repetition')

    def names_from(self, final, pre, o):
        """names of the key/cert the op created, read back from storage"""
        i = nb(o['_id']) if '_id' in o else None
        if o['op'] == 'import_cert':
            return {}
        if i is None or i not in final.ids:
            return {}
        old = set(pre.ids.get(i, {'keys': {}})['keys'])
        new = [k for k in final.ids[i]['keys'] if k not in old]
        if len(new) != 1:
            return {}
        kr = final.ids[i]['keys'][new[0]]
        certs = list(kr['certs'])
        return {'key': new[0], 'bits': kr['bits'], 'cert': certs[0] if certs else None,
                'cert_data': kr['certs'][certs[0]] if certs else None}

    def touched(self, o, pre):
        out = set()
        if '_id' in o:
            out.add(nb(o['_id']))
        for ref in ('_key',):
            if o.get(ref):
                i, _ = _find_key(pre, o[ref])
                if i:
                    out.add(i)
        if o.get('_cert'):
            i, _k, _kr = _find_cert(pre, o['_cert'])
            if i:
                out.add(i)
        return out

    # ---- invariants on the mapping views ---------------------------------------------------
    def check_views(self, when):
        w = self.w
        kc = w.kc
        m = w.model
        st_in = w.st.in_op
        w.st.in_op = False
        try:
            self._check_views(kc, m, when)
        except SimCrash:
            raise
        except Exception as e:
            self.viol('view-raised', innermost_ndn_frame(e), f'{when}: reading the views raised {exc_brief(e)}')
        finally:
            w.st.in_op = st_in

    def _check_views(self, kc, m, when):
        w = self.w
        ids = [nb(n) for n in kc]
        if sorted(ids) != sorted(m.ids) or len(kc) != len(m.ids):
            self.viol('view-identities', 'keychain', f'{when}: identities iter={len(ids)} len={len(kc)} model={len(m.ids)}')
        if m.did == 'MULTIPLE':
            self.viol('multiple-defaults', 'identity', f'{when}: more than one default identity')
        has = kc.has_default_identity()
        if has != (m.did is not None):
            self.viol('default-identity', 'has', f'{when}: has_default_identity()={has}, model default={_s(m.did)}')
        elif has and m.did != 'MULTIPLE' and nb(kc.default_identity().name) != m.did:
            self.viol('default-identity', 'which', f'{when}: default identity {_s(nb(kc.default_identity().name))}, model {_s(m.did)}')
        if m.ids and m.did is None and not self.default_was_deleted('id', None):
            self.viol('default-missing', 'identity', f'{when}: identities exist, the default was never deleted, yet there is no default')
        all_keys = {k: i for i, rec in m.ids.items() for k in rec['keys']}
        all_certs = {c: k for rec in m.ids.values() for k, kr in rec['keys'].items() for c in kr['certs']}
        for i, rec in m.ids.items():
            iname = Name.from_bytes(i)
            if iname not in kc:
                self.viol('view-membership', 'identity', f'{when}: identity {_s(i)} not `in` keychain')
                continue
            ident = kc[iname]
            ks = [nb(n) for n in ident]
            if sorted(ks) != sorted(rec['keys']) or len(ident) != len(rec['keys']):
                self.viol('view-keys', 'identity', f'{when}: identity {_s(i)}: iter gives {len(ks)} key(s), len()={len(ident)}, model {len(rec["keys"])}')
            if rec['dkey'] == 'MULTIPLE':
                self.viol('multiple-defaults', 'key', f'{when}: identity {_s(i)} has more than one default key')
            hk = ident.has_default_key()
            if hk != (rec['dkey'] is not None):
                self.viol('default-key', 'has', f'{when}: identity {_s(i)}: has_default_key()={hk}, model {_s(rec["dkey"])}')
            elif hk and rec['dkey'] != 'MULTIPLE' and nb(ident.default_key().name) != rec['dkey']:
                self.viol('default-key', 'which', f'{when}: identity {_s(i)}: default key differs from the model')
            for k, owner in all_keys.items():
                kname = Name.from_bytes(k)
                member = kname in ident
                if member != (owner == i):
                    self.viol('view-scope', 'identity-contains',
                              f'{when}: key {_s(k)} of identity {_s(owner)} is{"" if member else " not"} `in` identity {_s(i)}')
                if owner != i:
                    try:
                        got = ident[kname]
                        self.viol('view-scope', 'identity-getitem',
                                  f'{when}: identity {_s(i)}[{_s(k)}] returned a key that belongs to identity {_s(owner)} '
                                  f'(reported owner {_s(nb(got.identity))})')
                    except KeyError:
                        pass
            for k, kr in rec['keys'].items():
                kname = Name.from_bytes(k)
                try:
                    key = ident[kname]
                except KeyError:
                    self.viol('view-membership', 'key', f'{when}: identity {_s(i)}[{_s(k)}] raised KeyError')
                    continue
                if bytes(key.key_bits) != kr['bits'] or nb(key.name) != k or nb(key.identity) != i:
                    self.viol('view-key-fields', 'key', f'{when}: key {_s(k)}: name/identity/key_bits differ from what was stored')
                cs = [nb(n) for n in key]
                if sorted(cs) != sorted(kr['certs']) or len(key) != len(kr['certs']):
                    self.viol('view-certs', 'key-len' if sorted(cs) == sorted(kr['certs']) else 'key-iter',
                              f'{when}: key {_s(k)}: iter gives {len(cs)} certificate(s), len()={len(key)}, model {len(kr["certs"])}')
                if kr['dcert'] == 'MULTIPLE':
                    self.viol('multiple-defaults', 'cert', f'{when}: key {_s(k)} has more than one default certificate')
                hc = key.has_default_cert()
                if hc != (kr['dcert'] is not None):
                    self.viol('default-cert', 'has', f'{when}: key {_s(k)}: has_default_cert()={hc}, model {_s(kr["dcert"])}')
                elif hc and kr['dcert'] != 'MULTIPLE' and nb(key.default_cert().name) != kr['dcert']:
                    self.viol('default-cert', 'which', f'{when}: key {_s(k)}: default certificate differs from the model')
                for c, owner in all_certs.items():
                    cname = Name.from_bytes(c)
                    member = cname in key
                    if member != (owner == k):
                        self.viol('view-scope', 'key-contains',
                                  f'{when}: certificate {_s(c)} of key {_s(owner)} is{"" if member else " not"} `in` key {_s(k)}')
                    if owner == k:
                        cert = key[cname]
                        if bytes(cert.data) != kr['certs'][c] or nb(cert.name) != c or nb(cert.key) != k:
                            self.viol('view-cert-fields', 'cert', f'{when}: certificate {_s(c)}: name/key/data differ from what was stored')
                if not self.w.tpm.key_exist(kname) and k in m.priv:
                    self.viol('private-key-missing', 'tpm', f'{when}: private key of {_s(k)} is gone although the key exists')
        for k in m.deleted_keys:
            if k not in all_keys and self.w.tpm.key_exist(Name.from_bytes(k)) and not self.relaxed_key(k):
                self.viol('private-key-left', 'tpm', f'{when}: key {_s(k)} was deleted but its private key file still exists')

    def relaxed_key(self, k):
        return False

    def default_was_deleted(self, scope, owner):
        return True         # conservative: the model's default-None state already encodes "default deleted or never set"

    # ---- handles kept by the client across later operations -----------------------------------
    def _note_gone(self):
        """names of identities / keys that disappeared from the model since the last look (a later owner of the same name
        is another incarnation)"""
        m = self.w.model
        now = set(m.ids) | {k for rec in m.ids.values() for k in rec['keys']}
        prev = self.__dict__.get('_names_seen', set())
        self.__dict__.setdefault('gone_log', []).extend(sorted(prev - now))
        self._names_seen = now

    def do_hold(self, idx, o):
        w = self.w
        if w.st.fault_at is not None:
            return
        i = nb(o['_id'])
        if i not in w.model.ids:
            self.events.append((idx, 'hold', 'skipped'))
            return
        try:
            ident = w.kc[o['_id']]
            kn = sorted(w.model.ids[i]['keys'])[0] if w.model.ids[i]['keys'] else None
            key = ident[Name.from_bytes(kn)] if kn is not None else None
        except Exception as e:
            self.viol('view-raised', innermost_ndn_frame(e), f'hold #{idx}: looking up an existing identity/key raised {exc_brief(e)}')
            return
        self._note_gone()
        self.held = {'ident': ident, 'iname': i, 'key': key, 'kname': kn, 'mark': len(self.gone_log)}
        self.events.append((idx, 'hold', _s(i)))

    def do_use_held(self, idx):
        """The views are 'scoped to their owner': an Identity / Key object obtained earlier shows the keys / certificates
        of the identity / key it was obtained for - nothing once that one is deleted, whatever was created since."""
        w = self.w
        h = self.held
        if not h or w.st.fault_at is not None:
            self.events.append((idx, 'use_held', 'skipped'))
            return
        m = w.model
        self._note_gone()
        gone_since = set(self.gone_log[h['mark']:])
        w.stats['probe.held_handle_used'] += 1
        for what, obj, nm in (('identity', h['ident'], h['iname']), ('key', h['key'], h['kname'])):
            if obj is None:
                continue
            if what == 'identity':
                want = set(m.ids[nm]['keys']) if nm in m.ids else set()
                alive = nm in m.ids
            else:
                _i, rec = _find_key(m, nm)
                want = set(rec['keys'][nm]['certs']) if rec is not None else set()
                alive = rec is not None
            try:
                got = set(nb(x) for x in obj)
                ln = len(obj)
            except Exception as e:
                self.viol('view-raised', innermost_ndn_frame(e), f'use_held #{idx}: iterating a held {what} object raised {exc_brief(e)}')
                continue
            if not alive:
                w.stats['probe.held_handle_stale'] += 1
            if alive and nm in gone_since and not got and ln == 0:
                continue        # its owner was deleted and another one created under the same name: the old object stays empty
            if got != want or ln != len(want):
                self.viol('stale-view', what, f'use_held #{idx}: the {what} object obtained earlier for {_s(nm)} '
                          f'({"still there" if alive else "deleted since"}) lists {sorted(_s(x) for x in got)} (len {ln}); '
                          f'its owner holds {sorted(_s(x) for x in want)}')
                continue
            if not alive:
                try:
                    signer = self.lib(w.kc.get_signer, {what: obj})
                except Exception:
                    signer = None
                if signer is not None:
                    self.viol('signer-for-missing', what + '_held', f'use_held #{idx}: get_signer with the {what} object of the '
                              f'deleted {_s(nm)} returned a signer')

    # ---- get_signer ------------------------------------------------------------------------
    def do_get_signer(self, idx, o):
        w = self.w
        m = w.model
        kc = w.kc
        shape = o['shape']
        args = {}
        exp_key = exp_cert = None
        expect_error = False
        try:
            if shape == 'empty':
                if m.did is None:
                    expect_error = True
                else:
                    exp_key, exp_cert = self.defaults_of(m, m.did)
            elif shape in ('identity', 'identity_obj'):
                i = nb(o['_id'])
                if i not in m.ids:
                    expect_error = True
                    args['identity'] = o['_id']
                else:
                    args['identity'] = o['_id'] if shape == 'identity' else kc[o['_id']]
                    exp_key, exp_cert = self.defaults_of(m, i)
            elif shape in ('key', 'key_obj', 'id_key'):
                if shape == 'id_key':
                    # both selectors given: the more specific one (the key) decides - documented order cert, key, identity
                    args['identity'] = o['_id']
                kn = o['_key']
                i, rec = _find_key(m, kn)
                if rec is None:
                    expect_error = True
                    args['key'] = Name.from_bytes(kn)
                else:
                    args['key'] = Name.from_bytes(kn) if shape in ('key', 'id_key') else kc[Name.from_bytes(i)][Name.from_bytes(kn)]
                    exp_key = kn
                    exp_cert = rec['keys'][kn]['dcert']
            elif shape in ('cert', 'cert_obj'):
                cn = o['_cert']
                i, kn, kr = _find_cert(m, cn)
                if kr is None:
                    owner_key = nb(Name.from_bytes(cn)[:-2])
                    if owner_key in m.deleted_keys and shape == 'cert':
                        # the certificate's key was deleted: no signer may be handed out for it any more
                        args['cert'] = Name.from_bytes(cn)
                        expect_error = True
                    else:
                        self.events.append((idx, 'get_signer', 'skipped-deleted-cert'))
                        return
                if kr is not None:
                    args['cert'] = Name.from_bytes(cn) if shape == 'cert' else kc[Name.from_bytes(i)][Name.from_bytes(kn)][Name.from_bytes(cn)]
                    exp_key, exp_cert = kn, cn
                    owner = nb(Name.from_bytes(cn)[:-2])
                    if owner != kn:
                        # the certificate is filed under another key than the one it certifies: the key it NAMES signs
                        # (a signature made with the key it is filed under would not verify under this certificate)
                        orec = _find_key(m, owner)[1]
                        if orec is None or owner not in m.priv:
                            expect_error = True
                            exp_key = exp_cert = None
                        else:
                            exp_key = owner
                        w.stats['probe.signer_for_misfiled_certificate'] += 1
            elif shape == 'digest':
                args['digest_sha256'] = True
            elif shape == 'none':
                args['no_signature'] = True
            if exp_key is not None and exp_cert is None:
                expect_error = True
            if exp_cert == 'MULTIPLE' or exp_key == 'MULTIPLE':
                return
            # the documented argument type is NonStrictName: the same name as URI string or encoded Name works as well
            form = o.get('name_form', 'list')
            for fld in ('key', 'cert'):
                if shape == fld and fld in args and form != 'list':
                    args[fld] = Name.to_str(args[fld]) if form == 'str' else bytes(Name.to_bytes(args[fld]))
            locator = None
            if o.get('key_locator') and shape not in ('digest', 'none'):
                locator = '/loc/' + o['key_locator']
                args['key_locator'] = locator
        except Exception as e:
            self.viol('view-raised', innermost_ndn_frame(e), f'get_signer #{idx}: preparing arguments raised {exc_brief(e)}')
            return
        try:
            signer = self.lib(kc.get_signer, args)
            err = None
        except SimCrash:
            w.hard_close()
            w.open_store(create=False)
            w.stats['fault.crash'] += 1
            return
        except Exception as e:
            signer = None
            err = e
        if w.st.fired is not None and err is not None:
            return          # an injected read error may surface; nothing else to judge
        desc = f'get_signer #{idx} ({shape}{", key_locator" if locator else ""})'
        if shape == 'none':
            if signer is not None:
                self.viol('signer-args', 'no_signature', f'{desc} returned {type(signer).__name__}')
            return
        if expect_error:
            if err is None:
                self.viol('signer-for-missing', shape, f'{desc} returned a signer although the selected identity/key/default does not exist')
            return
        if err is not None:
            self.viol('signer-refused', innermost_ndn_frame(err), f'{desc} raised {exc_brief(err)} although the selection exists')
            return
        # sign something and inspect it with the independent reader
        try:
            wire = bytes(enc.make_data('/signed/by/' + shape, enc.MetaInfo(), b'payload-%d' % idx, signer=signer))
            p = tlvref.parse_data(wire)
        except Exception as e:
            self.viol('signer-broken', innermost_ndn_frame(e), f'{desc}: signing raised {exc_brief(e)}')
            return
        si = tlvref.elements(p.sig_info)
        st = tlvref.find(si, tlvref.T_SIG_TYPE)
        styp = int.from_bytes(p.sig_info[st[2]:st[3]], 'big')
        if shape == 'digest':
            if styp != 0:
                self.viol('signer-args', 'digest_sha256', f'{desc}: signature type {styp}')
            return
        kl = tlvref.find(si, tlvref.T_KEY_LOCATOR)
        kl_name = None
        if kl is not None:
            sub = tlvref.elements(p.sig_info, kl[2], kl[3])
            n = tlvref.find(sub, tlvref.T_NAME)
            if n is not None:
                kl_name = bytes(p.sig_info[n[1]:n[3]])
        want_loc = nb(locator) if locator else exp_cert
        if kl_name != want_loc:
            self.viol('signer-key-locator', shape, f'{desc}: key locator is {_s(kl_name)}, expected {_s(want_loc)}')
        i, rec = _find_key(m, exp_key)
        bits = rec['keys'][exp_key]['bits']
        if not verify_sig(bits, styp, p.signed_portion, p.sig_value):
            self.viol('signer-wrong-key', shape + ('-locator' if locator else ''),
                      f'{desc}: the signature does not verify under the public key stored for the selected key {_s(exp_key)}')
        self.events.append((idx, 'get_signer', shape, 'ok'))

    def defaults_of(self, m, i):
        rec = m.ids[i]
        if rec['dkey'] is None:
            return 'nokey', None
        return rec['dkey'], rec['keys'][rec['dkey']]['dcert']

    def finish(self):
        import hashlib
        w = self.w
        r = Result()
        r.violations = w.violations
        r.stats = w.stats
        r.steps = w.st.step
        r.digest = hashlib.sha256(canon([self.events, w.st.log, [v['signature'] for v in w.violations]]).encode()).hexdigest()
        return r


def verify_sig(bits, styp, signed, sig):
    from Cryptodome.Hash import SHA256
    from Cryptodome.PublicKey import ECC, RSA
    from Cryptodome.Signature import DSS, pkcs1_15
    h = SHA256.new(signed)
    try:
        if styp == 3:
            DSS.new(ECC.import_key(bits), 'fips-186-3', 'der').verify(h, sig)
            return True
        if styp == 1:
            pkcs1_15.new(RSA.import_key(bits)).verify(h, sig)
            return True
        if styp == 5:
            from Cryptodome.Signature import eddsa
            eddsa.new(ECC.import_key(bits), 'rfc8032').verify(bytes(signed), bytes(sig))
            return True
    except (ValueError, TypeError):
        return False
    return False


def _strip(rec):
    return {'dkey': rec['dkey'], 'keys': {k: {'certs': kr['certs'], 'dcert': kr['dcert'], 'bits': kr['bits']} for k, kr in rec['keys'].items()}}


def _s(b):
    if b is None or isinstance(b, str):
        return b
    try:
        return Name.to_str(Name.from_bytes(b))
    except Exception:
        return bytes(b).hex()


def _d(o):
    return ', '.join(f'{k}={_s(v) if isinstance(v, bytes) else v}' for k, v in o.items() if k not in ('op', 'at') and not k.startswith('_') or k in ('_id',))


def _diff(a, b):
    out = []
    for i in set(a['ids']) | set(b['ids']):
        if a['ids'].get(i) != b['ids'].get(i):
            out.append(f'identity {_s(i)}: got {_short(a["ids"].get(i))} expected {_short(b["ids"].get(i))}')
    if a['did'] != b['did']:
        out.append(f'default identity got {_s(a["did"])} expected {_s(b["did"])}')
    if a['priv'] != b['priv']:
        out.append(f'private keys got {len(a["priv"])} expected {len(b["priv"])}')
    return '; '.join(out)[:400]


def _short(rec):
    if rec is None:
        return None
    return {'dkey': _s(rec['dkey']), 'keys': {_s(k): v for k, v in rec['keys'].items()}}


# ---- engine interface ---------------------------------------------------------------------------


def execute(sc, keep_events=False):
    import collections
    import hashlib
    agg_viol = []
    stats = collections.Counter()
    digests = []
    # fault-free run
    r0 = Runner(sc, tag='ff').run()
    digests.append(r0.digest)
    stats.update(r0.stats)
    agg_viol.extend(r0.violations)
    K = r0.steps
    stats['kc.storage_steps'] += K
    points = sc.get('points')
    if points is None:
        points = [[k, kind] for k in range(1, K + 1) for kind in ('error', 'busy', 'crash')]
        if len(points) > MAX_POINTS:
            stride = len(points) / MAX_POINTS
            points = [points[int(i * stride)] for i in range(MAX_POINTS)]
    if not agg_viol or sc.get('points') is not None:
        for k, kind in points:
            r = Runner(sc, fault_at=k, fault_kind=kind, tag=f'{kind}{k}').run()
            digests.append(r.digest)
            stats.update(r.stats)
            stats['kc.fault_points'] += 1
            for v in r.violations:
                v = dict(v)
                v['detail'] = f'[fault {kind} at storage step {k}] ' + v['detail']
                v['fault_point'] = [k, kind]
                if not any(x['signature'] == v['signature'] for x in agg_viol):
                    agg_viol.append(v)
    res = Result()
    res.violations = agg_viol
    res.stats = stats
    res.steps = K
    res.digest = hashlib.sha256(''.join(digests).encode()).hexdigest()
    res.order_sig = hashlib.sha1(canon([o['op'] + ':' + str(o.get('shape', o.get('type', ''))) for o in sc['ops']]).encode()).hexdigest()[:16]
    res.nontrivial = len(sc['ops']) >= 3 and K >= 4
    res.sim_us = len(sc['ops']) * 1_000_000
    return res


def generate(rng, seed, tier='quick'):
    n = rng.randint(3, 14 if tier == 'quick' else 25)
    ids = ['a', 'b', 'c']
    if rng.random() < 0.2:
        ids = ['a', 'KEY/s', 'KEY/s/t']       # identity names that contain a KEY component themselves, one a prefix of the other
    ops = []
    nkeys = 0
    ncerts = 0
    kid = 0
    for _ in range(n):
        x = rng.random()
        if nkeys == 0 or x < 0.22:
            k = rng.choice(['touch_identity', 'touch_identity', 'new_identity'])
            ops.append({'op': k, 'id': rng.choice(ids)})
            if k == 'touch_identity':
                nkeys += 1
                ncerts += 1
        elif x < 0.36:
            kid += 1
            op = {'op': 'new_key', 'id': rng.choice(ids), 'type': 'rsa' if rng.random() < 0.08 else 'ec'}
            y = rng.random()
            if y < 0.6:
                op['key_id'] = f'k{rng.randint(0, 3)}'
            elif y < 0.75:
                op['key_id_type'] = 'sha256'
            ops.append(op)
            nkeys += 1
            ncerts += 1
        elif x < 0.44:
            op = {'op': 'import_cert', 'key': rng.randint(0, 7), 'issuer': rng.randint(0, 7), 'n': rng.randint(0, 2)}
            if rng.random() < 0.25:
                op['foreign_cert'] = True
                op['cert'] = rng.randint(0, 9)
            elif rng.random() < 0.2:
                op['named_for'] = rng.randint(0, 7)
            ops.append(op)
            ncerts += 1
            if 'named_for' in op and rng.random() < 0.7:
                # ... and somebody signs with that very certificate (the one created last)
                ops.append({'op': 'get_signer', 'shape': rng.choice(['cert', 'cert_obj', 'cert_obj']), 'id': rng.choice(ids),
                            'key': op['key'], 'cert': -1})
        elif x < 0.50:
            ops.append({'op': 'set_default_identity', 'id': rng.choice(ids)})
        elif x < 0.56:
            if rng.random() < 0.4:
                # through an arbitrary identity, with a key name that may be deleted by now or belong elsewhere
                ops.append({'op': 'set_default_key_via', 'id': rng.choice(ids), 'key': rng.randint(0, 7)})
            else:
                ops.append({'op': 'set_default_key', 'key': rng.randint(0, 7)})
        elif x < 0.62:
            if rng.random() < 0.25:
                ops.append({'op': 'set_default_cert_via', 'key': rng.randint(0, 7), 'cert': rng.randint(0, 9)})
            else:
                ops.append({'op': 'set_default_cert', 'cert': rng.randint(0, 9)})
        elif x < 0.66:
            ops.append({'op': 'del_cert', 'cert': rng.randint(0, 9), 'via_view': rng.random() < 0.4})
        elif x < 0.72:
            ops.append({'op': 'del_key', 'key': rng.randint(0, 7), 'via_view': rng.random() < 0.4})
        elif x < 0.77:
            ops.append({'op': 'del_identity', 'id': rng.choice(ids)})
        elif x < 0.93:
            shape = rng.choice(['empty', 'identity', 'identity_obj', 'key', 'key_obj', 'cert', 'cert_obj', 'digest', 'none', 'id_key'])
            op = {'op': 'get_signer', 'shape': shape, 'id': rng.choice(ids), 'key': rng.randint(0, 7), 'cert': rng.randint(0, 9)}
            if shape in ('key', 'cert') and rng.random() < 0.4:
                op['name_form'] = rng.choice(['str', 'wire'])
            if rng.random() < 0.3:
                op['key_locator'] = rng.choice(['x', 'y'])
            ops.append(op)
            if 'key_locator' in op and shape in ('key', 'key_obj', 'identity', 'cert') and rng.random() < 0.5:
                # ... and right afterwards the same key locator is asked for with ANOTHER key
                ops.append({'op': 'get_signer', 'shape': rng.choice(['key', 'key_obj']), 'id': rng.choice(ids),
                            'key': op['key'] + rng.randint(1, 3), 'cert': rng.randint(0, 9), 'key_locator': op['key_locator']})
        elif x < 0.95:
            if rng.random() < 0.5:
                ops.append({'op': 'probe_deleted_signer', 'key': rng.randint(0, 7)})
            elif rng.random() < 0.5:
                ops.append({'op': 'hold', 'id': rng.choice(ids)})
            else:
                ops.append({'op': 'use_held'})
        elif x < 0.975:
            # a handle kept across the deletion of its owner and the creation of something else (which may inherit the row)
            a = rng.choice(ids)
            b = rng.choice([i for i in ids if i != a] or ids)
            ops.append({'op': 'touch_identity', 'id': a})
            nkeys += 1
            ncerts += 1
            ops.append({'op': 'hold', 'id': a})
            ops.append({'op': 'del_identity', 'id': a} if rng.random() < 0.6 else {'op': 'del_key', 'key': -1})
            ops.append({'op': 'touch_identity', 'id': b} if rng.random() < 0.6 else
                       {'op': 'new_key', 'id': rng.choice(ids), 'type': 'ec'})
            nkeys += 1
            ncerts += 1
            ops.append({'op': 'use_held'})
        elif x < 0.988:
            ops.append({'op': 'reopen'})
        else:
            ops.append({'op': 'crash'})
    return {'engine': 'keychain', 'property': 'C15', 'seed': seed, 'config': {'wall_gran_us': 1000}, 'ops': ops}


def simplifications(sc):
    # after delta debugging of the op list: pin the single fault point that still fails
    if sc.get('points') is None:
        r0 = None
        try:
            r0 = Runner(sc, tag='ffs').run()
        except Exception:
            return
        for k in range(1, r0.steps + 1):
            for kind in ('error', 'busy', 'crash'):
                c = copy.deepcopy(sc)
                c['points'] = [[k, kind]]
                yield c
        c = copy.deepcopy(sc)
        c['points'] = []
        yield c
