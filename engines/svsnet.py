"""Multi-node state-vector-sync engine (C18, second configuration): 2-4 real SvsInst nodes, each on its own
v2 NDNApp, joined by a simulated lossy broadcast medium (loss, duplication, delay/reordering, a partition that
heals).  Every node is judged by the single-node reference model (the vectors it hears now come from real
peers); convergence after the last fault is measured and reported as a probe - the statement does not promise it."""
import copy

from simkit import tlvref
from simkit.core import World, HarnessError, innermost_ndn_frame, exc_brief
from simkit.loop import WallClock, FakeTimeModule
from simkit.net import DirectFace
from engines.svs import BASE, ScriptedSecrets, decode_sync_interest, node_key, judge_node, _fmt

from ndn import types as ndn_types
from ndn.security import DigestSha256Signer

NAMES = ['A', 'B', 'C', 'D']


class Node:
    pass


class SvsNetWorld(World):
    def __init__(self, scenario):
        super().__init__(scenario, max_steps=400000, max_time=4000.0)
        self.set_ndn_log_level(False)
        from ndn import appv2
        from ndn.app_support.svs import sync as svs_sync
        self.fine_wall = WallClock(self.loop, 1)
        self.seams.set(svs_sync, 'time', FakeTimeModule(self.fine_wall))
        self.seams.set(svs_sync, 'secrets', ScriptedSecrets(scenario.get('rand16', [])))
        self.SvsState = svs_sync.SvsState
        self.base = [bytes(c) for c in tlvref.name_from_uri('/' + '/'.join(BASE))]
        self.keys = {node_key(n): n for n in NAMES}
        self.nodes = {}
        self.tx_count = 0
        self.harness_tasks = set()
        self.sup_bound = int(scenario.get('sup_interval', 0.2) * 1.5e6) + 3000
        world = self

        async def pass_all(name, sig, ctx):
            return ndn_types.ValidResult.PASS
        for nm in scenario['nodes']:
            nd = Node()
            nd.name = nm
            nd.face = DirectFace(lambda wire, _n=nm: world._on_tx(_n, wire))
            nd.app = appv2.NDNApp(face=nd.face)
            nd.callbacks = 0

            def on_missing(inst, _nd=nd):
                world.log('missing', node=_nd.name, local=dict(inst.local_sv))
                _nd.callbacks += 1
            nd.inst = svs_sync.SvsInst('/' + '/'.join(BASE), '/node/' + nm, on_missing, DigestSha256Signer(for_interest=True),
                                       pass_all, sync_interval=scenario.get('sync_interval', 1.0),
                                       suppression_interval=scenario.get('sup_interval', 0.2), last_used_seq_num=0)
            nd.prev_local = {}
            nd.prev_state = nd.inst.state
            nd.tx_this_step = []
            nd.new_data_this_step = False
            nd.sup_since = None
            nd.sup_reported = False
            self._wrap(nd)
            self.nodes[nm] = nd
        self.loop.after_step = self._after_step

    def _wrap(self, nd):
        inst = nd.inst
        orig = inst.sync_handler
        world = self

        def handler(name, app_param, reply, context):
            before = dict(inst.local_sv)
            state_before = inst.state
            nd.callbacks = 0
            raised = None
            try:
                orig(name, app_param, reply, context)
            except BaseException as e:
                raised = e
            world.log('handled', node=nd.name, name_len=len(name), before=before, after=dict(inst.local_sv),
                      state_before=state_before.name, state_after=inst.state.name, callbacks=nd.callbacks,
                      raised=None if raised is None else exc_brief(raised),
                      where=None if raised is None else innermost_ndn_frame(raised),
                      nonce=getattr(context.get('int_param'), 'nonce', None))
            if raised is not None:
                raise raised
        inst.sync_handler = handler

    # ---- the broadcast medium --------------------------------------------------------------------
    def partitioned(self, a, b, t):
        for p in self.scenario.get('partitions', []):
            if p['from'] <= t < p['to']:
                ga = next((i for i, g in enumerate(p['groups']) if a in g), None)
                gb = next((i for i, g in enumerate(p['groups']) if b in g), None)
                if ga != gb:
                    return True
        return False

    def _on_tx(self, sender, wire):
        sv = decode_sync_interest(wire, self.base)
        idx = self.tx_count
        self.tx_count += 1
        self.log('tx', node=sender, sv=sv, wire=wire, idx=idx)
        self.nodes[sender].tx_this_step.append(sv)
        self.tok(f'T{sender}')
        pol = self.scenario.get('net', [])
        for j, rcv in enumerate(n for n in self.scenario['nodes'] if n != sender):
            act = pol[idx][j] if idx < len(pol) and j < len(pol[idx]) else {'a': 'ok', 'delay_us': 500}
            if act['a'] == 'lost':
                self.stats['fault.loss'] += 1
                continue
            d = act.get('delay_us', 500)
            self.after(d, self._deliver, sender, rcv, wire, sv)
            if act['a'] == 'dup':
                self.stats['fault.dup'] += 1
                self.after(d + act.get('gap_us', 1000), self._deliver, sender, rcv, wire, sv)
            if d > 2000:
                self.stats['fault.delay'] += 1

    def _deliver(self, sender, rcv, wire, sv):
        if self.partitioned(sender, rcv, self.now_us()):
            self.stats['fault.partition_drop'] += 1
            return
        nd = self.nodes[rcv]
        try:
            nonce = int.from_bytes(tlvref.parse_interest(wire).nonce or b'', 'big')
        except tlvref.TlvError:
            nonce = None
        pairs = [[self.keys.get(k, '?'), s] for k, s in (sv or {}).items()]
        self.log('rx', node=rcv, nonce=nonce, sv=pairs, vkind='ok', extra=False, short=False,
                 delivered=nd.face.deliver(wire), state=nd.inst.state.name, sender=sender)
        self.tok(f'R{rcv}')

    def _after_step(self):
        for nd in self.nodes.values():
            inst = nd.inst
            cur = dict(inst.local_sv)
            for k, v in nd.prev_local.items():
                if k not in cur or cur[k] < v:
                    self.violate('C18', 'decreased', 'svs-net', 'local_sv',
                                 f'node {nd.name}: state vector entry decreased from {v} to {cur.get(k)}')
            nd.prev_local = cur
            st = inst.state
            if nd.prev_state == self.SvsState.SyncSuppression and st == self.SvsState.SyncSteady:
                self.log('sup-end', node=nd.name, by='publish' if nd.new_data_this_step else 'timer', local=cur,
                         tx=list(nd.tx_this_step), agg=dict(getattr(inst, 'agg_sv', {})),
                         lasted=None if nd.sup_since is None else self.now_us() - nd.sup_since)
            if st == self.SvsState.SyncSuppression and inst.running:
                if nd.sup_since is None:
                    nd.sup_since = self.now_us()
                elif self.now_us() - nd.sup_since > self.sup_bound and not nd.sup_reported:
                    nd.sup_reported = True
                    self.log('sup-stuck', node=nd.name, since=nd.sup_since, bound=self.sup_bound, local=cur)
            else:
                nd.sup_since = None
            nd.prev_state = st
            nd.tx_this_step = []
            nd.new_data_this_step = False

    # ---- ops ----------------------------------------------------------------------------------------
    def op_new_data(self, op):
        nd = self.nodes[op['node']]
        before = nd.inst.self_seq
        nd.new_data_this_step = True
        seq0 = self._seq
        try:
            ret = nd.inst.new_data()
            self.log('publish', node=nd.name, ret=ret, before=before, local=dict(nd.inst.local_sv), running=nd.inst.running, seq0=seq0)
        except Exception as e:
            self.log('publish', node=nd.name, ret=None, before=before, exc=exc_brief(e), where=innermost_ndn_frame(e))
        self.tok(f'P{nd.name}')

    def execute(self, keep_events=False):
        try:
            def start():
                for nd in self.nodes.values():
                    self.harness_tasks.add(self.loop.create_task(nd.app.main_loop()))
            self.loop.call_soon(start)

            def start_insts():
                for nd in self.nodes.values():
                    nd.inst.start(nd.app)
                    self.log('start', node=nd.name, ok=True, local=dict(nd.inst.local_sv))
            self.at(1000, start_insts)
            ops = sorted(self.scenario['ops'], key=lambda o: o['at'])
            for op in ops:
                self.at(op['at'], self.op_new_data, op)
            last_fault = max([p['to'] for p in self.scenario.get('partitions', [])] + [o['at'] for o in ops] + [1000])
            settle = int(self.scenario.get('settle_s', 6) * 1e6)
            self.at(last_fault + settle, self._finish, last_fault)
            limit = self.run()
            if not limit:
                for nm in self.scenario['nodes']:
                    ev = [e for e in self.events if e.get('node') == nm or e['k'] == 'final']
                    # 'tx' of this node only; the model needs them as its own emissions
                    judge_node(self, ev, nm, check_tasks=False)
                for t in self.loop.unretrieved_task_errors():
                    if t in self.harness_tasks:
                        continue
                    e = t.exception()
                    self.violate('C18', 'task-died', 'svs-net', innermost_ndn_frame(e), f'background task ended with {exc_brief(e)}')
            res = self.result(limit, keep_events)
            res.nontrivial = len(ops) >= 2 and any(k.startswith('fault.') for k in self.stats)
            return res
        finally:
            self.close()

    def _finish(self, last_fault):
        vecs = {nm: {k: v for k, v in nd.inst.local_sv.items() if v} for nm, nd in self.nodes.items()}
        same = all(v == list(vecs.values())[0] for v in vecs.values())
        self.stats['probe.converged' if same else 'probe.not_converged'] += 1
        self.log('final', converged=same, vectors={nm: _fmt(v) for nm, v in vecs.items()}, since_last_fault_us=self.now_us() - last_fault)
        for nd in self.nodes.values():
            try:
                nd.inst.stop()
            except Exception:
                pass
            if nd.face.running:
                nd.app.shutdown()


def generate(rng, seed, tier='quick'):
    n = rng.choice([2, 3, 3, 4])
    nodes = NAMES[:n]
    ops = []
    t = 5000
    for _ in range(rng.randint(2, 8)):
        t += rng.choice([0, 1, 1000, 50000, 150000, 300000, 1200000])
        ops.append({'at': t, 'node': rng.choice(nodes)})
    mode = rng.choice(['clean', 'lossy', 'lossy', 'dup', 'delay', 'mixed'])
    net = []
    for _ in range(120):
        row = []
        for _j in range(n - 1):
            x = rng.random()
            if mode == 'clean':
                row.append({'a': 'ok', 'delay_us': rng.choice([100, 500, 1000])})
            elif x < (0.3 if mode in ('lossy', 'mixed') else 0.0):
                row.append({'a': 'lost'})
            elif x < (0.45 if mode in ('dup', 'mixed') else 0.0) + (0.3 if mode == 'mixed' else 0.0):
                row.append({'a': 'dup', 'delay_us': rng.choice([100, 500]), 'gap_us': rng.choice([1, 1000, 100000])})
            elif mode in ('delay', 'mixed') and x < 0.8:
                row.append({'a': 'ok', 'delay_us': rng.choice([100, 5000, 60000, 150000, 250000])})
            else:
                row.append({'a': 'ok', 'delay_us': rng.choice([100, 500, 1000])})
        net.append(row)
    partitions = []
    if rng.random() < 0.4 and n >= 2:
        cut = rng.randint(1, n - 1)
        g = list(nodes)
        rng.shuffle(g)
        t1 = rng.randint(2000, max(3000, t))
        partitions.append({'from': t1, 'to': t1 + rng.choice([100000, 500000, 2000000]), 'groups': [g[:cut], g[cut:]]})
    return {'engine': 'svsnet', 'property': 'C18', 'seed': seed,
            'config': {'turn_cost_us': rng.choice([0, 0, 1]), 'wall_gran_us': 1000},
            'nodes': nodes, 'sup_interval': rng.choice([0.05, 0.2]), 'sync_interval': rng.choice([1.0, 1.0, 3.0]),
            'rand16': [rng.choice([0, 32768, 65535, rng.randrange(65536)]) for _ in range(40)],
            'ops': ops, 'net': net, 'partitions': partitions, 'settle_s': 8}


def execute(sc, keep_events=False):
    w = SvsNetWorld(sc)
    return w.execute(keep_events)


def simplifications(sc):
    if sc.get('partitions'):
        c = copy.deepcopy(sc)
        c['partitions'] = []
        yield c
    if sc.get('net'):
        c = copy.deepcopy(sc)
        c['net'] = []
        yield c
    if len(sc['nodes']) > 2:
        c = copy.deepcopy(sc)
        c['nodes'] = sc['nodes'][:-1]
        c['ops'] = [o for o in sc['ops'] if o['node'] in c['nodes']] or sc['ops'][:1]
        if all(o['node'] in c['nodes'] for o in c['ops']):
            yield c
