"""Framing engine (C06, first half): the real TcpFace/UnixFace.run() loop fed by a simulator-owned
StreamReader.  One scenario = one byte stream + a list of trials (cut positions, gap, how the stream
ends); for short streams the trial list enumerates every single cut position and every EOF offset."""
import asyncio

from simkit import tlvref
from simkit.core import World, innermost_ndn_frame, exc_brief
from simkit.net import StreamPeer

KINDS = ['interest', 'data', 'lp', 'unknown1', 'unknown3', 'unknown5', 'unknown9', 'empty', 'big', 'len3', 'len5']


def _packet(rng, kind):
    t = tlvref
    if kind == 'interest':
        return t.tlv(5, t.name_tlv(t.name_from_uri('/' + '/'.join(rng.choice('abc') for _ in range(rng.randint(1, 3)))))
                     + t.tlv(0x0a, bytes(rng.getrandbits(8) for _ in range(4))))
    if kind == 'data':
        return t.tlv(6, t.name_tlv(t.name_from_uri('/d/' + rng.choice('xyz'))) + t.tlv(0x15, bytes(rng.randint(0, 30))))
    if kind == 'lp':
        return t.tlv(0x64, t.tlv(0x62, b'\x01\x02') + t.tlv(0x50, t.tlv(6, t.name_tlv(t.name_from_uri('/l')))))
    if kind == 'unknown1':
        return t.tlv(rng.choice([0x09, 0x80, 0xfc]), bytes(rng.randint(0, 5)))
    if kind == 'unknown3':
        return t.tlv(rng.choice([0xfd, 0x0320, 0xffff]), bytes(rng.randint(0, 5)))
    if kind == 'unknown5':
        return t.tlv(rng.choice([0x10000, 0xffffffff]), bytes(rng.randint(0, 5)))
    if kind == 'unknown9':
        return t.tlv(rng.choice([0x100000000, 2 ** 64 - 1]), bytes(rng.randint(0, 3)))
    if kind == 'empty':
        return t.tlv(rng.choice([5, 6, 0x64, 0x21]), b'')
    if kind == 'big':
        return t.tlv(6, t.name_tlv(t.name_from_uri('/big')) + t.tlv(0x15, bytes(rng.choice([252, 253, 300, 65535, 65536, 70000]))))
    if kind == 'len3':     # non-minimal 3-byte length (legal for a stream reader to accept)
        body = bytes(rng.randint(0, 8))
        return bytes([rng.choice([5, 6, 9])]) + b'\xfd' + len(body).to_bytes(2, 'big') + body
    if kind == 'len5':
        body = bytes(rng.randint(0, 8))
        return bytes([rng.choice([5, 6, 9])]) + b'\xfe' + len(body).to_bytes(4, 'big') + body
    raise ValueError(kind)


def generate(rng, seed, tier='quick'):
    short = rng.random() < 0.6
    n = rng.randint(1, 4) if short else rng.randint(1, 8)
    kinds = [k for k in KINDS if not (short and k == 'big')]
    pkts = []
    for _ in range(n):
        pkts.append(_packet(rng, rng.choice(kinds)))
        if short and sum(map(len, pkts)) > 64:
            pkts.pop()
            break
    if not pkts:
        pkts = [tlvref.tlv(5, tlvref.name_tlv(tlvref.name_from_uri('/a')))]
    stream = b''.join(pkts)
    n = len(stream)
    trials = []
    if n <= 64:
        for c in range(1, n):
            trials.append({'cuts': [c], 'gap_us': rng.choice([0, 1, 50, 50, 1_500_000]), 'end': 'eof', 'end_off': n})
        for e in range(0, n + 1):
            trials.append({'cuts': [], 'gap_us': 0, 'end': rng.choice(['eof', 'eof', 'reset']), 'end_off': e, 'eof_same_wakeup': rng.random() < 0.4,
                           'reopen': rng.random() < 0.5, 'exc': rng.choice(['reset', 'reset', 'timeout', 'abort', 'pipe', 'unreach'])})
        # byte-by-byte
        trials.append({'cuts': list(range(1, n)), 'gap_us': 1, 'end': 'none', 'end_off': n})
        exhaustive = True
    else:
        exhaustive = False
        bounds = []
        off = 0
        for p in pkts:
            bounds.append(off)
            off += len(p)
        for _ in range(12):
            k = rng.randint(1, 6)
            cuts = []
            for _j in range(k):
                if rng.random() < 0.6:
                    b = rng.choice(bounds)
                    cuts.append(min(n, b + rng.randint(0, 10)))      # inside type/length numbers
                else:
                    cuts.append(rng.randint(1, n - 1))
            end = rng.choice(['eof', 'eof', 'reset', 'none'])
            end_off = n if rng.random() < 0.5 else (min(n, rng.choice(bounds) + rng.randint(0, 12)) if rng.random() < 0.7
                                                    else rng.randint(0, n))
            trials.append({'cuts': sorted(set(c for c in cuts if 0 < c < n)), 'gap_us': rng.choice([0, 1, 2, 50, 50, 1_200_000, 5_000_000]),
                           'end': end, 'end_off': end_off, 'reopen': end != 'none' and rng.random() < 0.5,
                           'exc': rng.choice(['reset', 'reset', 'timeout', 'abort', 'pipe', 'unreach'])})
    return {'engine': 'framing', 'property': 'C06', 'seed': seed,
            'config': {'face': rng.choice(['tcp', 'tcp', 'unix']), 'turn_cost_us': rng.choice([0, 0, 1])},
            'packets': [p.hex() for p in pkts], 'trials': trials, 'exhaustive': exhaustive}


def _run_trial(sc, trial, agg):
    stream = b''.join(bytes.fromhex(h) for h in sc['packets'])
    w = World({'seed': sc['seed'], 'config': sc['config']}, max_steps=400000, max_time=36000.0)
    try:
        peer = StreamPeer(lambda wire: None)
        peer.install(w.seams)
        w.set_ndn_log_level(False)
        from ndn.transport.stream_face import TcpFace, UnixFace
        face = TcpFace('10.0.0.1', 6363) if sc['config']['face'] == 'tcp' else UnixFace('/sim/nfd.sock')
        got = []

        async def cb(typ, buf):
            got.append((typ, bytes(buf)))
        face.callback = cb
        state = {}

        got2 = []

        async def main():
            await face.open()
            await face.run()
            state['run_returned'] = True
            if trial.get('reopen') and trial['end'] in ('eof', 'reset'):
                # the application connects again with the SAME face object: a fresh stream, nothing carried over
                async def cb2(typ, buf):
                    got2.append((typ, bytes(buf)))
                face.callback = cb2
                await face.open()
                state['reopened'] = True
                await face.run()
                state['run2_returned'] = True
        w.loop.call_soon(lambda: state.setdefault('task', w.loop.create_task(main())))
        end_off = min(trial['end_off'], len(stream))
        data = stream[:end_off]
        cuts = [c for c in trial['cuts'] if 0 < c < len(data)]
        pieces = []
        last = 0
        for c in cuts:
            pieces.append(data[last:c])
            last = c
        pieces.append(data[last:])
        t = 1000
        gap = trial.get('gap_us', 0)

        def feed_all(ps):
            for p in ps:
                peer.feed(p)
        if gap == 0:
            w.at(t, feed_all, pieces)
        else:
            for p in pieces:
                w.at(t, feed_all, [p])
                t += gap
        t += 10
        if trial['end'] == 'eof' and trial.get('eof_same_wakeup') and gap == 0:
            # the last bytes and the end of the stream become visible to the reader in one go
            w.at(1000, peer.eof)
        elif trial['end'] == 'eof':
            w.at(t, peer.eof)
        elif trial['end'] == 'reset':
            w.at(t, peer.reset, trial.get('exc', 'reset'))
        stream2 = tlvref.tlv(6, tlvref.name_tlv(tlvref.name_from_uri('/second/1')) + tlvref.tlv(0x15, b'abc')) + \
            tlvref.tlv(5, tlvref.name_tlv(tlvref.name_from_uri('/second/2')) + tlvref.tlv(0x0a, b'\x00\x00\x00\x01'))
        if trial.get('reopen') and trial['end'] in ('eof', 'reset'):
            w.at(t + 1000, lambda: peer.feed(stream2))
            w.at(t + 1010, peer.eof)
        limit = w.run()
        if limit:
            agg['limit'] = limit
            return
        exp_pkts, rest = tlvref.frame_stream(data)
        if trial.get('reopen') and trial['end'] in ('eof', 'reset') and state.get('run_returned'):
            agg['stats']['fault.reopen'] += 1
            exp2, _r2 = tlvref.frame_stream(stream2)
            if not state.get('reopened') or got2 != exp2:
                w.violate('C06', 'framing-reopen', sc['config']['face'], 'stream_face.run',
                          f'stream={len(stream)}B end={trial["end"]}@{end_off}: after re-opening the same face object the '
                          f'callback received {[(t_, len(b)) for t_, b in got2]} for a fresh stream of '
                          f'{[(t_, len(b)) for t_, b in exp2]} (reopened={bool(state.get("reopened"))})')
        if trial['end'] == 'reset':
            # asyncio hands buffered bytes over before raising the stored exception only partly: a reset
            # discards nothing already framed; packets completely received before the reset must be delivered
            pass
        desc = f'stream={len(stream)}B end={trial["end"]}@{end_off} cuts={cuts[:8]} gap={gap}'
        if got != exp_pkts:
            kind = 'partial' if len(got) > len(exp_pkts) else ('missing' if len(got) < len(exp_pkts) else 'mismatch')
            w.violate('C06', 'framing-' + kind, sc['config']['face'], 'stream_face.run',
                      f'{desc}: callback received {len(got)} packet(s) {[(t_, len(b)) for t_, b in got][:6]}, the stream '
                      f'contains {len(exp_pkts)} complete packet(s) {[(t_, len(b)) for t_, b in exp_pkts][:6]}')
        task = state.get('task')
        if trial['end'] in ('eof', 'reset'):
            if face.running or not state.get('run_returned'):
                exc = None
                if task is not None and task.done() and not task.cancelled():
                    exc = task.exception()
                if exc is not None:
                    w.violate('C06', 'framing-run-raised', sc['config']['face'], innermost_ndn_frame(exc),
                              f'{desc}: run() raised {exc_brief(exc)}')
                else:
                    w.violate('C06', 'framing-not-shutdown', sc['config']['face'], 'stream_face.run',
                              f'{desc}: after the stream ended the face is running={face.running}, '
                              f'run() returned={bool(state.get("run_returned"))}')
        if trial['end'] in ('eof', 'reset') and state.get('run_returned') and peer.writer is not None and not peer.writer.closed:
            w.violate('C06', 'framing-not-closed', sc['config']['face'], 'stream_face.run',
                      f'{desc}: the stream ended and run() returned, but the connection was not closed')
        for rep in w.loop.exc_reports:
            e = rep['exc']
            w.violate('C06', 'loop-exc', sc['config']['face'], innermost_ndn_frame(e) if e else 'loop',
                      f'{desc}: {rep["message"]} {rep["exc_type"]}')
        for tk in w.loop.unretrieved_task_errors():
            e = tk.exception()
            w.violate('C06', 'task-died', sc['config']['face'], innermost_ndn_frame(e), f'{desc}: {exc_brief(e)}')
        agg['viol'].extend(v for v in w.violations if v['signature'] not in {x['signature'] for x in agg['viol']})
        agg['steps'] += w.loop.steps
        agg['sim_us'] += w.now_us()
        agg['events'].append((trial, [(t_, len(b)) for t_, b in got]))
        inside = any(True for c in cuts if c not in _boundaries(exp_pkts))
        if inside:
            agg['stats']['fault.rechunk'] += 1
        if trial['end'] == 'eof':
            agg['stats']['fault.eof'] += 1
            if rest:
                agg['stats']['probe.eof-mid-packet'] += 1
        if trial['end'] == 'reset':
            agg['stats']['fault.reset'] += 1
    finally:
        w.close()


def _boundaries(pkts):
    out = set()
    off = 0
    for _t, b in pkts:
        off += len(b)
        out.add(off)
    return out


def execute(sc, keep_events=False):
    import collections
    import hashlib
    from simkit.core import Result, canon
    agg = {'viol': [], 'steps': 0, 'sim_us': 0, 'events': [], 'stats': collections.Counter(), 'limit': None}
    for trial in sc['trials']:
        _run_trial(sc, trial, agg)
    r = Result()
    r.violations = agg['viol']
    r.steps = agg['steps']
    r.sim_us = agg['sim_us']
    r.stats = agg['stats']
    r.stats['framing.trials'] = len(sc['trials'])
    if sc.get('exhaustive'):
        r.stats['framing.exhaustive_streams'] = 1
    r.limit = agg['limit']
    r.digest = hashlib.sha256(canon(agg['events']).encode()).hexdigest()
    r.order_sig = hashlib.sha1(canon([sc['packets'], [(t['cuts'], t['end'], t['end_off']) for t in sc['trials']]]).encode()).hexdigest()[:16]
    r.nontrivial = len(sc['packets']) >= 2 and agg['stats'].get('fault.rechunk', 0) > 0
    if keep_events:
        r.events = [{'k': 'trial', 'trial': t, 'got': g} for t, g in agg['events']]
    return r
