"""Registration engine (C17): real NfdRegister (v2) / NDNApp.register+unregister (v1) against a
reactive fake NFD management responder on the simulated face."""
import asyncio
import collections
import hashlib

from simkit import tlvref
from simkit.core import World, HarnessError, W_US, innermost_ndn_frame, exc_brief
from simkit.net import DirectFace

import ndn.encoding as enc
from ndn.security import DigestSha256Signer

LIFETIME_US = 1_000_000
STATUS_POOL = [200, 200, 200, 201, 400, 403, 404, 409, 501, 503]
CP_FIELDS = {      # name -> (type, kind)
    'face_id': (0x69, 'int'), 'uri': (0x72, 'str'), 'local_uri': (0x81, 'str'), 'origin': (0x6f, 'int'),
    'cost': (0x6a, 'int'), 'capacity': (0x83, 'int'), 'count': (0x84, 'int'),
    'base_congestion_mark_interval': (0x87, 'int'), 'default_congestion_threshold': (0x88, 'int'), 'mtu': (0x89, 'int'),
    'flags': (0x6c, 'int'), 'mask': (0x70, 'int'), 'expiration_period': (0x6d, 'int'),
    'face_persistency': (0x85, 'enum'),         # 0 persistent, 1 on-demand, 2 permanent; other numbers may be sent too
}
CP_ORDER = ['face_id', 'uri', 'local_uri', 'origin', 'cost', 'capacity', 'count', 'base_congestion_mark_interval',
            'default_congestion_threshold', 'mtu', 'flags', 'mask', 'expiration_period', 'face_persistency']


def pfx_comps(prefix):
    return tlvref.name_from_uri('/' + '/'.join(prefix)) if prefix else []


def build_cp(prefix, fields):
    body = b''
    if prefix is not None:
        body += tlvref.name_tlv(pfx_comps(prefix))
    for k in CP_ORDER:
        if k in fields:
            t, kind = CP_FIELDS[k]
            v = fields[k]
            body += tlvref.tlv(t, tlvref.nni(v) if kind in ('int', 'enum') else v.encode())
    return tlvref.tlv(0x68, body)


def build_response(code, text, prefix, fields, with_body=True):
    body = tlvref.tlv(0x66, tlvref.nni(code)) + tlvref.tlv(0x67, text.encode())
    if with_body:
        body += build_cp(prefix, fields)
    return tlvref.tlv(0x65, body)


class Command:
    __slots__ = ('idx', 't', 'verb', 'prefix', 'wire', 'name', 'ts', 'fmt_errors', 'answered_t', 'policy')


_PREVIOUS_LOOP = object()       # stands for the event loop of an earlier run_forever()


class _LoopProxy:
    """the running loop under another identity (see _reconnect)"""

    def __init__(self, loop):
        self._loop_ = loop

    def __getattr__(self, name):
        return getattr(self._loop_, name)


class RegWorld(World):
    def __init__(self, scenario):
        super().__init__(scenario, max_steps=60000, max_time=600.0)
        self.time_module.ticks = tuple(scenario.get('config', {}).get('wall_ticks', ()))
        if self.time_module.ticks:
            self.stats['fault.clock_ticks_between_reads'] += sum(1 for x in self.time_module.ticks if x)
        self.fe = self.cfg.get('frontend', 'v2')
        self.set_ndn_log_level(bool(self.cfg.get('debug_log', False)))
        self.face = DirectFace(self._on_tx)
        self.face.local = bool(scenario.get('config', {}).get('face_local', True))
        self.face.open_delay_us = int(scenario.get('config', {}).get('open_delay_us', 0))
        if self.fe == 'v2':
            from ndn import appv2
            self.app = appv2.NDNApp(face=self.face)
        else:
            from ndn import app as appv1
            from engines.pipeline import _StubKeychain
            self.app = appv1.NDNApp(face=self.face, keychain=_StubKeychain())
        self.commands = []
        self.connection = 0
        self.policies = scenario.get('policies', [])
        self.calls = {}
        self.harness_tasks = set()
        self.other_tx = 0

    # ---- the fake forwarder ----------------------------------------------------------------
    def _on_tx(self, wire):
        try:
            p = tlvref.parse_interest(wire)
        except tlvref.TlvError:
            self.other_tx += 1
            self.log('tx-other', wire=wire)
            return
        names = [bytes(c) for c in p.name]
        pre = tlvref.name_from_uri('/localhost/nfd/rib')
        pre2 = tlvref.name_from_uri('/localhop/nfd/rib')
        if len(names) < 5 or (names[:3] != pre and names[:3] != pre2):
            self.other_tx += 1
            self.log('tx-other', wire=wire)
            return
        c = Command()
        c.idx = len(self.commands)
        c.t = self.now_us()
        c.wire = wire
        c.name = names
        c.verb = names[3][2:].decode('latin1')
        c.fmt_errors = []
        c.prefix = None
        c.ts = None
        c.answered_t = None
        self._check_format(c, p)
        pol = self.policies[c.idx] if c.idx < len(self.policies) else {'kind': 'ok', 'delay_us': 100}
        c.policy = pol
        self.commands.append(c)
        self.log('command', idx=c.idx, verb=c.verb, prefix=c.prefix, ts=c.ts, conn=self.connection,
                 fmt_errors=list(c.fmt_errors), policy=pol)
        self.tok(f'K{c.verb[0]}')
        self._respond(c, pol)

    def _check_format(self, c, p):
        """Command Interest format of the front-end in use, checked with the independent reader."""
        names = c.name
        scope = b'localhost' if self.face.local else b'localhop'
        if names[0][2:] != scope:
            c.fmt_errors.append(f'command sent under /{names[0][2:].decode()} over a face that is '
                                f'{"local" if self.face.local else "not local"} (management commands go to /{scope.decode()}/nfd there)')
        try:
            typ, vs, ve = tlvref.single(names[4][_hdr(names[4]):])
            if typ != 0x68:
                raise tlvref.TlvError('parameters component does not hold ControlParameters')
            inner = names[4][_hdr(names[4]):]
            els = tlvref.elements(inner, vs, ve)
            n = tlvref.find(els, tlvref.T_NAME)
            if n is None:
                c.fmt_errors.append('ControlParameters without Name')
            else:
                c.prefix = [bytes(x) for x in tlvref.name_components(inner, n[2], n[3])]
            extra = [hex(t) for (t, _s, _v, _e) in els if t != tlvref.T_NAME]
            if extra:
                # register()/unregister() were given a prefix and nothing else: the forwarder would act on any further field
                c.fmt_errors.append(f'ControlParameters carry fields the caller never set: {extra}')
        except (tlvref.TlvError, IndexError) as e:
            c.fmt_errors.append(f'undecodable ControlParameters: {e}')
        if self.fe == 'v2':
            if p.app_param is None:
                c.fmt_errors.append('no ApplicationParameters')
            if p.sig_info is None or p.sig_value is None:
                c.fmt_errors.append('not a signed Interest')
            else:
                els = tlvref.elements(p.sig_info)
                st = tlvref.find(els, tlvref.T_SIG_TYPE)
                if st is None or int.from_bytes(p.sig_info[st[2]:st[3]], 'big') != 0:
                    c.fmt_errors.append('SignatureType is not DigestSha256')
                tm = tlvref.find(els, tlvref.T_SIG_TIME)
                nn = tlvref.find(els, tlvref.T_SIG_NONCE)
                if tm is None:
                    c.fmt_errors.append('SignatureInfo without SignatureTime')
                else:
                    c.ts = int.from_bytes(p.sig_info[tm[2]:tm[3]], 'big')
                if nn is None:
                    c.fmt_errors.append('SignatureInfo without SignatureNonce')
                if hashlib.sha256(p.signed_portion).digest() != p.sig_value:
                    c.fmt_errors.append('SignatureValue is not SHA-256 of the signed portion')
            if not tlvref.params_digest_ok(p):
                c.fmt_errors.append('parameters digest component missing or wrong')
            if len(names) != 6:
                c.fmt_errors.append(f'command name has {len(names)} components, expected 6')
        else:
            if len(names) != 9:
                c.fmt_errors.append(f'command name has {len(names)} components, expected 9')
                return
            ts_c, nonce_c, si_c, sv_c = names[5], names[6], names[7], names[8]
            if len(ts_c) != 10 or len(nonce_c) != 10:
                c.fmt_errors.append('timestamp/nonce component is not 8 bytes')
            else:
                c.ts = int.from_bytes(ts_c[2:], 'big')
            try:
                t1, v1, e1 = tlvref.single(si_c[_hdr(si_c):])
                t2, v2, e2 = tlvref.single(sv_c[_hdr(sv_c):])
                if t1 != tlvref.T_SIG_INFO or t2 != tlvref.T_SIG_VALUE:
                    c.fmt_errors.append('SignatureInfo/SignatureValue components have wrong inner types')
                else:
                    sv = sv_c[_hdr(sv_c):][v2:e2]
                    if hashlib.sha256(b''.join(names[:8])).digest() != sv:
                        c.fmt_errors.append('SignatureValue is not SHA-256 of the preceding components')
            except tlvref.TlvError as e:
                c.fmt_errors.append(f'undecodable signature components: {e}')

    def _respond(self, c, pol):
        kind = pol.get('kind', 'ok')
        delay = pol.get('delay_us', 100)
        if kind == 'silence':
            self.stats['fault.silence'] += 1
            return
        if kind == 'nack':
            self.stats['fault.nack'] += 1
            wire = tlvref.make_nack(c.wire, pol.get('reason', 150))
        else:
            if kind == 'ok':
                content = build_response(200, 'OK', _as_strs(c.prefix), pol.get('fields', {'face_id': 262, 'origin': 0, 'cost': 0}))
            elif kind == 'status':
                content = build_response(pol['code'], pol.get('text', 'err'), _as_strs(c.prefix), pol.get('fields', {}),
                                         with_body=pol.get('body', False))
                self.stats['fault.status'] += 1
            elif kind == 'garbage':
                content = bytes.fromhex(pol.get('hex', '')) if pol.get('hex') is not None else None
                self.stats['fault.garbage'] += 1
            else:
                raise HarnessError(f'unknown policy {kind}')
            wire = bytes(enc.make_data([bytes(x) for x in c.name], enc.MetaInfo(freshness_period=1000), content,
                                       signer=DigestSha256Signer()))
            if pol.get('badsig'):
                # a reply whose signature does not verify: the legacy front-end checks it (validation failure = the
                # command failed, without raising), the current one passes every reply
                self.stats['fault.reply_badsig'] += 1
                wire = wire[:-1] + bytes([wire[-1] ^ 0x01])
        n = 2 if pol.get('dup') else 1
        if pol.get('dup'):
            self.stats['fault.dup'] += 1
        for i in range(n):
            self.after(delay + i * pol.get('dup_gap_us', 1), self._deliver_reply, c, wire)

    def _deliver_reply(self, c, wire):
        if c.answered_t is None:
            c.answered_t = self.now_us()
        self.log('reply', idx=c.idx, delivered=self.face.deliver(wire))

    # ---- scripted callers ------------------------------------------------------------------
    def spawn(self, coro):
        t = self.loop.create_task(coro)
        self.harness_tasks.add(t)
        return t

    async def _call(self, op):
        cid = op['cid']
        prefix = '/' + '/'.join(op['prefix'])
        self.log('call', cid=cid, verb=op['op'], prefix=op['prefix'], running=bool(self.face.running))
        self.tok(f'c{op["op"][0]}')
        try:
            if op['op'] == 'register':
                if self.fe == 'v2':
                    ret = await self.app.register(prefix)
                else:
                    ret = await self.app.register(prefix, (lambda *a, **k: None) if op.get('with_handler') else None)
            else:
                ret = await self.app.unregister(prefix)
            self.log('call-done', cid=cid, ret=ret if isinstance(ret, bool) else repr(ret), is_bool=isinstance(ret, bool))
        except asyncio.CancelledError:
            self.log('call-done', cid=cid, ret='cancelled', is_bool=False)
        except BaseException as e:
            self.log('call-done', cid=cid, ret='raised', exc=exc_brief(e), where=innermost_ndn_frame(e), is_bool=False)

    def op_call(self, op):
        task = self.spawn(self._call(op))
        if op.get('give_up_us') is not None:
            # the caller gives up (a wait_for() around the call times out, its task group is cancelled)
            def give_up():
                if not task.done():
                    self.log('give-up', cid=op['cid'])
                    self.stats['fault.caller_gives_up'] += 1
                    task.cancel()
            self.after(op['give_up_us'], give_up)

    def op_route(self, op):
        prefix = '/' + '/'.join(op['prefix'])
        try:
            self.app.route(prefix)(lambda *a, **k: None)
            self.log('route', prefix=op['prefix'], running=bool(self.face.running), conn=self.connection)
        except Exception as e:
            self.log('route', prefix=op['prefix'], error=exc_brief(e))

    def op_reconnect(self, op):
        self.log('reconnect')
        self.stats['fault.reconnect'] += 1
        self.spawn(self._reconnect(op.get('how', 'shutdown'), bool(op.get('new_loop'))))

    async def _reconnect(self, how='shutdown', new_loop=False):
        if self.face.running:
            if how == 'peer_close':
                self.face.peer_close()          # the forwarder closes the connection
            else:
                self.app.shutdown()
        await self.main_task
        if new_loop:
            # The application reconnects by calling run_forever() again, i.e. asyncio.run(): the next run is on a NEW event loop.
            # The simulation goes on with the same loop object; what a new loop changes for the code under test is emulated:
            # every loop-bound primitive (Semaphore, Lock, Event, ...) the application still holds from the previous run is
            # bound to a loop that is not the running one any more.
            import asyncio.mixins as _mx
            holders = [self.app] + [x for x in (getattr(self.app, 'registerer', None),) if x is not None]
            for h in holders:
                for v in list(vars(h).values()):
                    if isinstance(v, _mx._LoopBoundMixin) and getattr(v, '_loop', None) is self.loop:
                        v._loop = _PREVIOUS_LOOP
                        self.stats['fault.primitive_bound_to_previous_loop'] += 1
            # ... and asyncio.get_running_loop() hands out an object that is not the one remembered from the previous run
            self.seams.set(asyncio, 'get_running_loop', lambda _p=_LoopProxy(self.loop): _p)
            self.stats['fault.reconnect_on_new_event_loop'] += 1
        self.connection += 1
        self.main_task = self.spawn(self._main())

    async def _main(self):
        try:
            await self.app.main_loop()
            self.log('main-done', ok=True)
        except asyncio.CancelledError:
            raise
        except BaseException as e:
            self.log('main-done', ok=False, exc=exc_brief(e), where=innermost_ndn_frame(e))

    def _start(self):
        if self.scenario.get('config', {}).get('other_command_first'):
            # another part of the application (an nfdc-like tool) built a command with more parameters earlier
            from ndn.app_support import nfd_mgmt
            nfd_mgmt.make_command_v2('rib', 'register', None, name='/other/tool', face_id=300, cost=10, origin=255, flags=1)
            nfd_mgmt.make_command('faces', 'update', None, face_id=7, flags=3, mask=3)
        if self.fe != 'v2' and self.scenario.get('config', {}).get('v1_strict_data_validator'):
            async def strict(name, sig):
                return False            # this application trusts no Data that is merely digest-signed
            self.app.data_validator = strict
        declared = set()
        for pfx in self.scenario.get('routes_before', []):
            dup = tuple(pfx) in declared
            declared.add(tuple(pfx))
            try:
                self.app.route('/' + '/'.join(pfx))(lambda *a, **k: None)
            except ValueError as e:
                # a second declaration for an occupied prefix may be refused on the spot
                self.log('route', prefix=pfx, running=False, conn=-1, error=exc_brief(e), dup=dup)
                if not dup:
                    self.violate('C17', 'route-refused', self.fe, 'route', f'route({_n(pfx)}) raised {exc_brief(e)}')
                continue
            if dup:
                # ... or be taken silently; either way it is one route, registered once per connection
                self.log('route', prefix=pfx, running=False, conn=-1, error='duplicate declaration accepted', dup=True)
                self.stats['fault.duplicate_route_declared'] += 1
            else:
                self.log('route', prefix=pfx, running=False, conn=-1)
        for op in self.scenario['ops']:
            if op.get('early'):
                self.op_call(op)            # before the application connects
        self.main_task = self.spawn(self._main())

    def _finish(self):
        self.log('final')
        if self.face.running:
            self.app.shutdown()

    def _run_ops(self, batch):
        for fn, op in batch:
            try:
                fn(op)
            except Exception as e:
                self.harness_failure = f'op {op.get("op")}: {type(e).__name__}: {e}'
                self.loop.stop()
                return

    def execute(self, keep_events=False):
        limit = None
        self.harness_failure = None
        try:
            self.loop.call_soon(self._start)
            table = {'register': self.op_call, 'unregister': self.op_call, 'route': self.op_route,
                     'reconnect': self.op_reconnect}
            ops = sorted([o for o in self.scenario['ops'] if not o.get('early') and not o.get('at_open')], key=lambda o: o['at'])
            at_open = [o for o in self.scenario['ops'] if o.get('at_open')]
            if at_open:
                def opened():
                    self.face.on_opened = None          # (the first connection only)
                    self._run_ops([(table[o['op']], o) for o in at_open])
                self.face.on_opened = opened
            i = 0
            while i < len(ops):
                j = i
                while j < len(ops) and ops[j]['at'] == ops[i]['at']:
                    j += 1
                self.at(ops[i]['at'], self._run_ops, [(table[o['op']], o) for o in ops[i:j]])
                i = j
            n_cmds = len(ops) + len(self.scenario.get('routes_before', [])) * 3 + 3
            horizon = (ops[-1]['at'] if ops else 0) + n_cmds * (LIFETIME_US + 20000) + 50000
            self.at(horizon, self._finish)
            limit = self.run()
            if self.harness_failure:
                raise HarnessError(self.harness_failure)
            if not limit:
                self._judge()
            res = self.result(limit, keep_events)
            res.nontrivial = len(self.commands) >= 2 and any(k.startswith('fault.') for k in self.stats)
            return res
        finally:
            self.close()

    # ---- oracle ----------------------------------------------------------------------------
    def _judge(self):
        fe = self.fe
        ev = self.events
        calls = {e['cid']: e for e in ev if e['k'] == 'call'}
        dones = {e['cid']: e for e in ev if e['k'] == 'call-done'}
        routes = [e for e in ev if e['k'] == 'route' and 'error' not in e]
        reconnects = [e for e in ev if e['k'] == 'reconnect']
        cmds = self.commands
        # calls whose caller gave up (the front-ends turn the cancellation of a command in flight into a False result)
        gave_up = {e['cid'] for e in ev if e['k'] == 'give-up'}
        # (0) nobody raised, everybody finished, app start-up task survived
        for e in ev:
            if e['k'] == 'main-done' and not e['ok'] and not str(e.get('exc', '')).startswith('NetworkError'):
                self.violate('C17', 'startup-raised', fe, e.get('where', '?'),
                             f'main_loop ended with {e.get("exc")} while registering declared routes')
        for cid, c in calls.items():
            d = dones.get(cid)
            if d is None:
                self.violate('C17', 'call-hang', fe, c['verb'], f'{c["verb"]}({_n(c["prefix"])}) never returned')
            elif d['ret'] == 'raised' and (not c['running'] or str(d.get('exc', '')).startswith('NetworkError')):
                pass        # documented: NetworkError when the face is down
            elif d['ret'] == 'raised':
                self.violate('C17', 'call-raised', fe, d.get('where', '?'),
                             f'{c["verb"]}({_n(c["prefix"])}) raised {d.get("exc")} instead of reporting failure')
        # (1) format of every command
        for c in cmds:
            for err in c.fmt_errors:
                self.violate('C17', 'command-format', fe, c.verb, f'command #{c.idx} ({c.verb}): {err}')
        # (2) exactly one command per call / per declared route and connection
        if not reconnects:
            expected = collections.Counter()
            for cid, c in calls.items():
                if c['running']:
                    expected[(c['verb'], tuple(pfx_comps(c['prefix'])))] += 1
            for r in routes:
                expected[('register', tuple(pfx_comps(r['prefix'])))] += 1
            actual = collections.Counter((c.verb, tuple(c.prefix or ())) for c in cmds)
            for cid, c in calls.items():
                if cid in gave_up:
                    # its caller gave up: the command was sent or was not (its prefix is used by no other call)
                    key = (c['verb'], tuple(pfx_comps(c['prefix'])))
                    expected.pop(key, None)
                    if actual.get(key, 0) <= 1:
                        actual.pop(key, None)
            if expected != actual:
                miss = expected - actual
                extra = actual - expected
                self.violate('C17', 'command-count', fe, 'missing' if miss else 'extra',
                             f'commands sent do not match the calls made: missing {_cnt(miss)}, unexpected {_cnt(extra)}')
        else:
            # once per connection for every route declared so far
            cut_short = {i for i, r in enumerate(reconnects) if any(o.get('mid_startup') for o in self.scenario['ops'] if o['op'] == 'reconnect')}
            carried_over = set()
            for conn in range(0, self.connection + 1):
                if conn in cut_short:
                    continue        # this connection was lost during its start-up registrations
                conn_cmds = collections.Counter(tuple(c.prefix or ()) for c, e in zip(cmds, [x for x in ev if x['k'] == 'command'])
                                                if e['conn'] == conn and c.verb == 'register')
                declared = [r for r in routes if r['conn'] < conn or r['conn'] == -1 or (r['conn'] == conn)]
                for r in declared:
                    key = tuple(pfx_comps(r['prefix']))
                    explicit = sum(1 for c in calls.values() if c['verb'] == 'register' and tuple(pfx_comps(c['prefix'])) == key)
                    if explicit:
                        continue
                    if r['conn'] == conn and conn < self.connection and conn_cmds.get(key, 0) == 0:
                        carried_over.add(key)
                        # declared while this connection was up, and the connection was lost later: its command may still have
                        # been waiting for its turn (one command at a time, one per clock reading) - the next connection counts
                        continue
                    if r['conn'] == conn - 1 and r['conn'] >= 0 and key in carried_over and conn_cmds.get(key, 0) == 2:
                        continue        # ... and that waiting command went out over this connection, next to the start-up's own
                    if conn_cmds.get(key, 0) != 1:
                        self.violate('C17', 'route-registration-count', fe, 'route',
                                     f'route {_n(r["prefix"])} was registered {conn_cmds.get(key, 0)}x on connection {conn}, expected once')
        # (3) one at a time, strictly increasing timestamps
        for a, b in zip(cmds, cmds[1:]):
            ea = [x for x in ev if x['k'] == 'command' and x['idx'] == a.idx][0]
            eb = [x for x in ev if x['k'] == 'command' and x['idx'] == b.idx][0]
            free_at = a.answered_t if a.answered_t is not None else a.t + LIFETIME_US
            free_at = min(free_at, a.t + LIFETIME_US)
            for g in ev:
                if g['k'] == 'give-up' and tuple(pfx_comps(calls[g['cid']]['prefix'])) == tuple(a.prefix or ()) \
                        and calls[g['cid']]['verb'] == a.verb and g['t'] >= a.t:
                    free_at = min(free_at, g['t'])
            # (with a wall clock that moves between reads, a lifetime measured on it ends that much earlier in loop time)
            slack = W_US
            if ea['conn'] == eb['conn'] and b.t < free_at - slack:
                self.violate('C17', 'concurrent-commands', fe, b.verb,
                             f'command #{b.idx} ({b.verb}) was sent at t={b.t}us while command #{a.idx} ({a.verb}, sent '
                             f't={a.t}us) was still outstanding until t={free_at}us')
            if a.ts is not None and b.ts is not None and not b.ts > a.ts and not self.stats.get('fault.wall_jump'):
                self.violate('C17', 'timestamp-order', fe, b.verb,
                             f'command #{b.idx} carries timestamp {b.ts}, not greater than {a.ts} of command #{a.idx}')
        # (4) return value == (reply is ControlResponse with status 200, in time)
        by_key = collections.defaultdict(list)
        for c in cmds:
            by_key[(c.verb, tuple(c.prefix or ()))].append(c)
        for cid, c in calls.items():
            d = dones.get(cid)
            if d is None or d['ret'] in ('raised', 'cancelled') or not c['running'] or cid in gave_up:
                continue
            key = (c['verb'], tuple(pfx_comps(c['prefix'])))
            same = [x for x in calls.values() if (x['verb'], tuple(pfx_comps(x['prefix']))) == key]
            if len(same) != 1 or len(by_key.get(key, [])) != 1 or reconnects:
                self.ambiguous += 1
                continue
            cmd = by_key[key][0]
            pol = cmd.policy
            kind = pol.get('kind', 'ok')
            delay = pol.get('delay_us', 100)
            if kind == 'ok' and fe != 'v2' and (pol.get('badsig') or self.scenario['config'].get('v1_strict_data_validator')):
                exp = {False}           # the reply did not pass the application's Data validator: failure, without raising
            elif kind == 'ok':
                wsl = W_US
                exp = {True} if delay < LIFETIME_US - wsl else ({False} if delay > LIFETIME_US + wsl else {True, False})
            else:
                exp = {False}
            if len(exp) == 2:
                self.ambiguous += 1
            got = d['ret']
            if not d['is_bool'] or got not in exp:
                self.violate('C17', 'return-value', fe, f'{c["verb"]}-{kind}',
                             f'{c["verb"]}({_n(c["prefix"])}) returned {got!r}; the forwarder answered with policy {pol} '
                             f'-> expected {sorted(exp)}')
        # no stray tasks / loop errors
        for t in self.loop.unretrieved_task_errors():
            if t in self.harness_tasks:
                continue
            e = t.exception()
            if type(e).__name__ == 'NetworkError':
                continue
            self.violate('C17', 'task-died', fe, innermost_ndn_frame(e), f'background task ended with {exc_brief(e)}')


def _hdr(comp):
    _t, n1 = tlvref.dec_var(comp, 0, strict=False)
    _l, n2 = tlvref.dec_var(comp, n1, strict=False)
    return n1 + n2


def _as_strs(prefix_comps):
    if prefix_comps is None:
        return None
    return [bytes(c[_hdr(c):]).decode('latin1') for c in prefix_comps]


def _n(prefix):
    return '/' + '/'.join(prefix)


def _cnt(counter):
    return [(v, '/' + '/'.join(bytes(c[_hdr(c):]).decode('latin1') for c in p), n) for (v, p), n in counter.items()]


# ----------------------------------------------------------------------------------------------


def generate(rng, seed, tier='quick'):
    fe = rng.choice(['v1', 'v2'])
    cfg = {'frontend': fe, 'turn_cost_us': rng.choice([0, 0, 1, 3]), 'wall_gran_us': rng.choice([1000, 1000, 2000, 8000, 16000, 50000]),
           'debug_log': rng.random() < 0.2}
    if rng.random() < 0.15:
        cfg['other_command_first'] = True
    if fe == 'v1' and rng.random() < 0.1:
        cfg['v1_strict_data_validator'] = True
    cfg['face_local'] = rng.random() < 0.7       # over a face that is not local, commands go to /localhop/nfd
    if rng.random() < 0.12:
        cfg['open_delay_us'] = rng.choice([500, 1500])      # (below the first call at t=2000: calls are made on a running face)
    if rng.random() < 0.25:
        # the wall clock moves on between two consecutive reads now and then (a tick, or a whole granule)
        cfg['wall_ticks'] = [rng.choice([0, 0, 0, 0, 400, cfg['wall_gran_us']]) for _ in range(60)]
    n_calls = rng.randint(1, 8)
    ops = []
    t = 2000
    used = set()
    registered = []
    cid = 0
    for _ in range(n_calls):
        cid += 1
        t += rng.choice([0, 0, 0, 1, 1000, 5000, 300000])
        verb = 'register' if (not registered or rng.random() < 0.6) else 'unregister'
        if verb == 'register':
            while True:
                pfx = [rng.choice(['a', 'b', 'c', 'd', 'seg=1', 'v=2', '%00', '32=x', 'KEY']) for _ in range(rng.randint(1, 3))]
                if rng.random() < 0.08:
                    pfx = []            # the root prefix "/"
                elif rng.random() < 0.06:
                    pfx = pfx + [rng.choice(['L' * 240, 'L' * 251, 'M' * 300, 'N' * 70000])]     # a long prefix: lengths of 3 and 5 octets
                if tuple(pfx) not in used:
                    break
            used.add(tuple(pfx))
            registered.append(pfx)
            # (legacy front-end: func=None means "only send the command, attach nothing" - documented)
            ops.append({'at': t, 'op': 'register', 'cid': cid, 'prefix': pfx, 'with_handler': rng.random() < 0.85})
        else:
            pfx = registered.pop(rng.randrange(len(registered)))
            ops.append({'at': t + (0 if fe == 'v2' else 0), 'op': 'unregister', 'cid': cid, 'prefix': pfx})
    if rng.random() < 0.2 and ops:
        # one caller gives up while its call is queued behind the others, waiting for a new clock reading, or in flight;
        # the calls made afterwards must not suffer
        base = rng.choice(ops)['at']
        cid += 1
        ops.append({'at': base, 'op': 'register', 'cid': cid, 'prefix': ['g', rng.choice(['x', 'y'])], 'with_handler': True,
                    'give_up_us': rng.choice([1, 60, 150, 300, 600, 1100, 2500, 40000])})
        for k in range(rng.randint(1, 2)):
            cid += 1
            ops.append({'at': base + rng.choice([3000, 5000, 60000]) + k, 'op': 'register', 'cid': cid, 'prefix': ['h', 'xy'[k]],
                        'with_handler': True})
        n_calls += 3
    if rng.random() < 0.15:
        # a call made before the connection is up: documented NetworkError, and it must not spoil the calls that follow
        ops.append({'at': 0, 'op': 'register', 'cid': 0, 'prefix': ['early', rng.choice(['x', 'y'])], 'with_handler': True,
                    'early': True})
    routes_before = []
    if rng.random() < 0.4:
        for _ in range(rng.randint(1, 2)):
            pfx = ['r', rng.choice(['x', 'y', 'z'])]
            if tuple(pfx) not in used:
                used.add(tuple(pfx))
                routes_before.append(pfx)
    if routes_before and rng.random() < 0.12:
        # the same prefix declared twice (two modules of one program): the other routes must not suffer
        routes_before.insert(rng.randrange(len(routes_before) + 1), list(rng.choice(routes_before)))
    if rng.random() < 0.3:
        # a route declared on a running application - also while the start-up registrations of the routes declared
        # before are still on their way (one declaration, one command)
        pfx = ['s', rng.choice(['x', 'y'])]
        if tuple(pfx) not in used:
            used.add(tuple(pfx))
            at = rng.randint(2000, t + 1000) if not routes_before or rng.random() < 0.4 else rng.choice([20, 60, 150, 400, 1200])
            ops.append({'at': at, 'op': 'route', 'prefix': pfx})
    if routes_before and rng.random() < 0.12:
        # ... or in the very moment the connection is up: open() has returned, the start-up registrations have not begun
        pfx = ['t', rng.choice(['x', 'y'])]
        used.add(tuple(pfx))
        ops.append({'at': 0, 'op': 'route', 'prefix': pfx, 'at_open': True})
    if cfg.get('open_delay_us') and rng.random() < 0.6:
        # a route declared while the connection is still being opened: it is a declared route of this connection
        pfx = ['o', rng.choice(['x', 'y'])]
        used.add(tuple(pfx))
        ops[:] = [o for o in ops if o['op'] != 'route']       # (no further route while the start-up registrations run)
        ops.append({'at': rng.randint(1, cfg['open_delay_us'] - 1), 'op': 'route', 'prefix': pfx})
    reconnect = rng.random() < 0.15 and bool(routes_before)
    n_pol = n_calls + len(routes_before) + 2
    policies = []
    for _ in range(n_pol):
        x = rng.random()
        if x < 0.45:
            pol = {'kind': 'ok', 'delay_us': rng.choice([0, 1, 100, 1000, 30000])}
            if rng.random() < 0.15:
                pol['delay_us'] = LIFETIME_US + rng.choice([-2000, -3, -1, 0, 1, 3, 2000, 50000])
        elif x < 0.65:
            pol = {'kind': 'status', 'code': rng.choice(STATUS_POOL[3:]), 'text': rng.choice(['err', 'Unauthorized', '']),
                   'body': rng.random() < 0.5, 'delay_us': rng.choice([0, 100, 5000])}
        elif x < 0.77:
            pol = {'kind': 'nack', 'reason': rng.choice([50, 100, 150, 0, None]), 'delay_us': rng.choice([0, 100, 5000])}
        elif x < 0.87:
            pol = {'kind': 'silence'}
        else:
            pol = {'kind': 'garbage', 'hex': rng.choice([None, '', '00', '6500', '65036601c8'[:rng.choice([4, 6, 8])], 'ff', '0801', '6605666f6f',
                                                          bytes(rng.getrandbits(8) for _ in range(rng.randint(1, 12))).hex()]),
                   'delay_us': rng.choice([0, 100])}
        if pol['kind'] == 'ok' and rng.random() < 0.08:
            pol['badsig'] = True
        if pol['kind'] != 'silence' and rng.random() < 0.1:
            pol['dup'] = True
            pol['dup_gap_us'] = rng.choice([0, 1, 1000])
        if pol['kind'] == 'ok' and rng.random() < 0.3:
            pol['fields'] = {k: (rng.choice([0, 1, 255, 256, 65536, 2 ** 32, 2 ** 63]) if CP_FIELDS[k][1] == 'int'
                                 else rng.choice([0, 1, 2, 2, 3, 255]) if CP_FIELDS[k][1] == 'enum'
                                 else rng.choice(['', 'udp4://1.2.3.4:6363', 'unix:///run/nfd.sock', 'tcp6://[::1]:6363']))
                             for k in CP_ORDER if rng.random() < 0.4}
        policies.append(pol)
    if reconnect:
        # 'once per connection': only declared routes, the connection is dropped and re-established once the
        # start-up registrations are over (a shutdown in the middle of them is outside the statement)
        t_rc = 2000 + len(routes_before) * 40000 + rng.choice([0, 1, 5000])
        ops = []
        if rng.random() < 0.5:
            # quick forwarder, connection dropped right after the last start-up command was answered: the first command of
            # the next connection is due within the same clock reading as the last one of this connection
            for pol in policies:
                pol.clear()
                pol.update({'kind': 'ok', 'delay_us': rng.choice([0, 1, 100])})
            t_rc = 2000 + rng.choice([len(routes_before) - 1, len(routes_before)]) * cfg['wall_gran_us'] + rng.choice([1, 100, 300, 700])
        if rng.random() < 0.5:
            # a route declared while connected: registered at once, and again on every later connection
            ops.append({'at': t_rc, 'op': 'route', 'prefix': ['s', rng.choice(['x', 'y'])]})
            t_rc += 40000 + rng.choice([0, 1, 5000])
        if rng.random() < 0.3:
            # the application withdraws a prefix that lies ABOVE its declared routes: they are routes of their own
            ops.append({'at': t_rc, 'op': 'unregister', 'cid': 90, 'prefix': ['r']})
            t_rc += 40000 + rng.choice([0, 1, 5000])
        mid = False
        if len(routes_before) >= 2 and rng.random() < 0.3:
            # the connection is lost while the start-up registrations are still under way (a command is outstanding);
            # what is judged is the NEXT connection: every declared route once, start-up not aborted
            mid = True
            ops = []
            for pol in policies:
                pol.clear()
                pol.update({'kind': 'ok', 'delay_us': rng.choice([20000, 30000])})
            t_rc = 2000 + rng.choice([1000, 10000, 25000, 35000])
        rc = {'at': t_rc, 'op': 'reconnect', 'how': rng.choice(['shutdown', 'peer_close']), 'mid_startup': mid}
        if not mid and rng.random() < 0.35:
            # the application reconnects with a second run_forever() (a new event loop); it has calls queued up in both runs
            rc['new_loop'] = True
            for k_, (cid_, pf_) in enumerate(((91, ['n', 'a']), (92, ['n', 'b']), (93, ['n', 'c']))):
                ops.append({'at': t_rc - 1, 'op': 'register', 'cid': cid_, 'prefix': pf_, 'with_handler': True})
            rc['at'] = t_rc = t_rc + 200000
            for k_, (cid_, pf_) in enumerate(((94, ['n', 'd']), (95, ['n', 'e']), (96, ['n', 'f']))):
                ops.append({'at': t_rc + 300000 + len(routes_before) * 40000, 'op': 'register', 'cid': cid_, 'prefix': pf_, 'with_handler': True})
        ops.append(rc)
        for pol in policies:
            if pol['kind'] == 'silence' or pol.get('delay_us', 0) > 30000:
                pol.clear()
                pol.update({'kind': 'status', 'code': 503, 'text': 'later', 'body': False, 'delay_us': 100})
    return {'engine': 'registration', 'property': 'C17', 'seed': seed, 'config': cfg, 'routes_before': routes_before,
            'ops': ops, 'policies': policies}


def execute(sc, keep_events=False):
    w = RegWorld(sc)
    res = w.execute(keep_events)
    _parse_response_roundtrip(sc, res)
    return res


def _parse_response_roundtrip(sc, res):
    """'decoding a management response returns the fields that were encoded': every response the fake forwarder
    could have produced for this scenario's policies is decoded with nfd_mgmt.parse_response."""
    from ndn.app_support import nfd_mgmt
    for pol in sc.get('policies', []):
        if pol.get('kind') not in ('ok', 'status'):
            continue
        code = 200 if pol['kind'] == 'ok' else pol['code']
        text = 'OK' if pol['kind'] == 'ok' else pol.get('text', 'err')
        fields = pol.get('fields', {'face_id': 262, 'origin': 0, 'cost': 0} if pol['kind'] == 'ok' else {})
        with_body = True if pol['kind'] == 'ok' else pol.get('body', False)
        prefix = ['p', 'q']
        wire = build_response(code, text, prefix, fields, with_body)
        try:
            got = nfd_mgmt.parse_response(wire)
        except Exception as e:
            sig = f'C17:parse-response-raised:nfd_mgmt:{innermost_ndn_frame(e)}'
            if not any(v['signature'] == sig for v in res.violations):
                res.violations.append({'property': 'C17', 'rule': 'parse-response-raised', 'component': 'nfd_mgmt',
                                       'where': innermost_ndn_frame(e), 'signature': sig, 't': 0,
                                       'detail': f'parse_response on a well-formed ControlResponse (status {code}, '
                                                 f'body={with_body}) raised {exc_brief(e)}'})
            continue
        bad = []
        if got.get('status_code') != code:
            bad.append(('status_code', got.get('status_code'), code))
        if got.get('status_text') != text:
            bad.append(('status_text', got.get('status_text'), text))
        if with_body:
            gn = got.get('name')
            if gn is None or [bytes(c) for c in gn] != pfx_comps(prefix):
                bad.append(('name', gn, prefix))
            for k in CP_ORDER:
                want = fields.get(k)
                have = got.get(k)
                have = getattr(have, 'value', have)         # an Enum member stands for its number
                if have != want:
                    bad.append((k, got.get(k), want))
        if bad:
            sig = f'C17:parse-response-fields:nfd_mgmt:{bad[0][0]}'
            if not any(v['signature'] == sig for v in res.violations):
                res.violations.append({'property': 'C17', 'rule': 'parse-response-fields', 'component': 'nfd_mgmt',
                                       'where': bad[0][0], 'signature': sig, 't': 0,
                                       'detail': f'parse_response returned wrong fields (field, got, encoded): {bad[:4]}'})


def simplifications(sc):
    import copy
    for key, val in (('turn_cost_us', 0), ('debug_log', False), ('wall_gran_us', 1000)):
        if sc['config'].get(key) != val:
            c = copy.deepcopy(sc)
            c['config'][key] = val
            yield c
    if sc.get('routes_before'):
        c = copy.deepcopy(sc)
        c['routes_before'] = []
        yield c
    for i, pol in enumerate(sc.get('policies', [])):
        if pol != {'kind': 'ok', 'delay_us': 100}:
            c = copy.deepcopy(sc)
            c['policies'][i] = {'kind': 'ok', 'delay_us': 100}
            yield c
