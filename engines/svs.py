"""State-vector-sync engine (C18): one real SvsInst on a v2 NDNApp; inbound sync Interests, local
publications and start/stop at scripted times; sync.time and sync.secrets on the simulated clock and
a scripted random sequence (so the generator knows every timer the instance will sample)."""
import asyncio
import copy

from simkit import tlvref
from simkit.core import World, HarnessError, innermost_ndn_frame, exc_brief
from simkit.loop import WallClock, FakeTimeModule
from simkit.net import DirectFace

import ndn.encoding as enc
from ndn import types as ndn_types
from ndn.security import DigestSha256Signer

T_SV = 0xc9
T_SV_ENTRY = 0xca
T_SEQ = 0xcc
BASE = ['sync', 'grp']
SELF = 'A'


def _canon(n):
    return n[:-3] if n.endswith('~nm') else n


def node_name(n):
    if n.endswith('~nm'):
        # the same name with a non-minimal (3-byte) Length in its last component: every decoder of the library reads it as /node/<n>
        comps = tlvref.name_from_uri('/node/' + n[:-3])
        last = comps[-1]
        t, n1 = tlvref.dec_var(last, 0)
        ln, n2 = tlvref.dec_var(last, n1)
        comps[-1] = last[:n1] + b'\xfd' + ln.to_bytes(2, 'big') + last[n1 + n2:]
        return tlvref.name_tlv(comps)
    for suf, typ in ODD_TYPES.items():
        if n.endswith(suf):
            # a last component whose type number no name component may have (0, or above 65535)
            comps = tlvref.name_from_uri('/node/' + n[:-len(suf)])
            _t, n1 = tlvref.dec_var(comps[-1], 0)
            comps[-1] = tlvref.enc_var(typ) + comps[-1][n1:]
            return tlvref.name_tlv(comps)
    return tlvref.name_tlv(tlvref.name_from_uri('/node/' + n))


ODD_TYPES = {'~t0': 0, '~big': 70000}


def _odd(n):
    return any(n.endswith(suf) for suf in ODD_TYPES)


def node_key(n):
    """dict key of a node: its name in canonical encoding"""
    return bytes(node_name(_canon(n)))


def sv_component(entries, kind='ok'):
    """entries: list of [node or None, seq or None]"""
    body = b''
    for n, s in entries:
        e = b''
        if n is not None:
            e += node_name(n)
        if s is not None:
            e += tlvref.tlv(T_SEQ, tlvref.nni(s))
        body += tlvref.tlv(T_SV_ENTRY, e)
    comp = tlvref.tlv(T_SV, body)
    if kind == 'truncated':
        comp = tlvref.tlv(T_SV, body[:-1]) if body else comp
    elif kind == 'badlen':
        comp = bytes([T_SV, max(0, len(body) - 2)]) + body if len(body) < 250 else comp
    elif kind == 'generic':
        comp = tlvref.tlv(8, body)
    return comp


def decode_sync_interest(wire, base_comps):
    """Independent decode of an emitted sync Interest -> dict node-key -> seq, or None if it is not one."""
    try:
        p = tlvref.parse_interest(wire)
    except tlvref.TlvError:
        return None
    name = [bytes(c) for c in p.name]
    if name[:len(base_comps)] != base_comps or len(name) < len(base_comps) + 1:
        return None
    comp = name[len(base_comps)]
    try:
        typ, vs, ve = tlvref.single(comp)
        if typ != T_SV:
            return None
        out = {}
        for (t, _s, v, e) in tlvref.elements(comp, vs, ve):
            if t != T_SV_ENTRY:
                continue
            sub = tlvref.elements(comp, v, e)
            n = tlvref.find(sub, tlvref.T_NAME)
            q = tlvref.find(sub, T_SEQ)
            if n is None or q is None:
                return None
            out[bytes(comp[n[1]:n[3]])] = tlvref.dec_nni(comp[q[2]:q[3]])
        return out
    except tlvref.TlvError:
        return None


class ScriptedSecrets:
    def __init__(self, seq):
        self.seq = list(seq)
        self.i = 0

    def randbits(self, k):
        v = self.seq[self.i] if self.i < len(self.seq) else 32768
        self.i += 1
        return v & ((1 << k) - 1)


class SvsWorld(World):
    def __init__(self, scenario):
        super().__init__(scenario, max_steps=60000, max_time=4000.0)
        self.set_ndn_log_level(bool(self.cfg.get('debug_log', False)))
        self.face = DirectFace(self._on_tx)
        from ndn import appv2
        from ndn.app_support.svs import sync as svs_sync
        self.app = appv2.NDNApp(face=self.face)
        self.fine_wall = WallClock(self.loop, 1)
        self.seams.set(svs_sync, 'time', FakeTimeModule(self.fine_wall))
        self.secrets = ScriptedSecrets(scenario.get('rand16', []))
        self.seams.set(svs_sync, 'secrets', self.secrets)
        self.base = tlvref.name_from_uri('/' + '/'.join(BASE))
        world = self

        async def pass_all(name, sig, ctx):
            return ndn_types.ValidResult.PASS

        self.cb_count = 0

        def on_missing(inst):
            world.log('missing', local=dict(inst.local_sv))
            world.callbacks_in_handler += 1
            k = world.cb_count
            world.cb_count += 1
            if k in (scenario.get('cb_raise') or ()):
                # the application's own callback fails: that is the application's problem, the sync state must not suffer
                world.stats['fault.callback_raises'] += 1
                raise RuntimeError('scripted application error in on_missing_data')
        # the application names itself by URI or - 'self_form' - by an encoded name, which may spell a length the long way
        self_id = '/node/' + SELF
        if scenario.get('self_form') == 'wire':
            self_id = bytes(node_name(SELF))
        elif scenario.get('self_form') == 'wire-nm':
            self_id = bytes(node_name(SELF + '~nm'))
        self.inst = svs_sync.SvsInst('/' + '/'.join(BASE), self_id, on_missing,
                                     DigestSha256Signer(for_interest=True), pass_all,
                                     sync_interval=scenario.get('sync_interval', 30.0),
                                     suppression_interval=scenario.get('sup_interval', 0.2),
                                     last_used_seq_num=scenario.get('start_seq', 0))
        self.SvsState = svs_sync.SvsState
        self.callbacks_in_handler = 0
        self.harness_tasks = set()
        self.tx_this_step = []
        self.new_data_this_step = False
        self.prev_state = self.inst.state
        self.prev_local = dict(self.inst.local_sv)
        self.period = None          # model of the current suppression period: {'heard': merged dict}
        self.sup_since = None
        self.sup_reported = False
        self.sup_bound = int(scenario.get('sup_interval', 0.2) * 1.5e6) + 3000
        self._wrap_handler()
        self.loop.after_step = self._after_step

    # ---- observation -----------------------------------------------------------------------
    def _on_tx(self, wire):
        sv = decode_sync_interest(wire, [bytes(c) for c in self.base])
        self.log('tx', sv=sv, wire=wire)
        self.tx_this_step.append(sv)
        self.tok('T')

    def _wrap_handler(self):
        inst = self.inst
        orig = inst.sync_handler
        world = self

        def handler(name, app_param, reply, context):
            before = dict(inst.local_sv)
            state_before = inst.state
            world.callbacks_in_handler = 0
            raised = None
            try:
                orig(name, app_param, reply, context)
            except BaseException as e:
                raised = e
            after = dict(inst.local_sv)
            world.log('handled', name_len=len(name), before=before, after=after, state_before=state_before.name,
                      state_after=inst.state.name, callbacks=world.callbacks_in_handler,
                      raised=None if raised is None else exc_brief(raised),
                      where=None if raised is None else innermost_ndn_frame(raised),
                      nonce=getattr(context.get('int_param'), 'nonce', None))
            if raised is not None:
                raise raised
        inst.sync_handler = handler

    def _after_step(self):
        inst = self.inst
        cur = dict(inst.local_sv)
        for k, v in self.prev_local.items():
            if k not in cur or (v is not None and cur[k] is not None and cur[k] < v):
                self.violate('C18', 'decreased', 'svs', 'local_sv',
                             f'local state vector entry decreased from {v} to {cur.get(k)}')
        self.prev_local = cur
        st = inst.state
        if self.prev_state == self.SvsState.SyncSuppression and st == self.SvsState.SyncSteady:
            self.log('sup-end', by='publish' if self.new_data_this_step else 'timer', local=cur,
                     tx=[x for x in self.tx_this_step], agg=dict(getattr(inst, 'agg_sv', {})),
                     lasted=None if self.sup_since is None else self.now_us() - self.sup_since)
        if st == self.SvsState.SyncSuppression and inst.running:
            if self.sup_since is None:
                self.sup_since = self.now_us()
            elif self.now_us() - self.sup_since > self.sup_bound and not self.sup_reported:
                self.sup_reported = True
                self.log('sup-stuck', since=self.sup_since, bound=self.sup_bound, local=cur)
        else:
            self.sup_since = None
        self.prev_state = st
        self.tx_this_step = []
        self.new_data_this_step = False

    # ---- ops -------------------------------------------------------------------------------
    def op_start(self, op):
        try:
            self.inst.start(self.app)
            self.log('start', ok=True, local=dict(self.inst.local_sv))
        except Exception as e:
            self.log('start', ok=False, exc=exc_brief(e))

    def op_stop(self, op):
        try:
            self.inst.stop()
            self.stats['fault.stop'] += 1
            self.log('stop', ok=True)
        except Exception as e:
            self.log('stop', ok=False, exc=exc_brief(e))

    def op_restart(self, op):
        # stop() and start() back to back, without giving the event loop a turn in between
        self.op_stop(op)
        self.op_start(op)

    def op_face_down(self, op):
        """the face cannot send for a while (e.g. the transport is reconnecting): express() raises NetworkError"""
        self.face.running = False
        self.stats['fault.face_down'] += 1
        self.log('face-down')
        self.after(op.get('dur_us', 1000), self._face_up)

    def _face_up(self):
        self.face.running = True
        self.log('face-up')

    def op_new_data(self, op):
        before = self.inst.self_seq
        self.new_data_this_step = True
        seq0 = self._seq
        down = not self.face.running
        try:
            ret = self.inst.new_data()
            self.log('publish', ret=ret, before=before, local=dict(self.inst.local_sv), running=self.inst.running,
                     seq0=seq0, face_down=down, self_seq=self.inst.self_seq)
        except Exception as e:
            self.log('publish', ret=None, before=before, exc=exc_brief(e), where=innermost_ndn_frame(e), face_down=down,
                     self_seq=self.inst.self_seq, local=dict(self.inst.local_sv))
        self.tok('P')

    def op_rx(self, op):
        comp = sv_component(op['sv'], op.get('kind', 'ok'))
        name = [bytes(c) for c in self.base] + [comp]
        if op.get('extra_comp'):
            name = name + [tlvref.tlv(8, b'x')]
        if op.get('short'):
            name = [bytes(c) for c in self.base]
        wire = bytes(enc.make_interest(name, enc.InterestParam(lifetime=1000, nonce=op['nonce']), b'',
                                       signer=DigestSha256Signer(for_interest=True)))
        if op.get('kind', 'ok') != 'ok' or op.get('extra_comp') or op.get('short') or not op['sv'] \
                or any(n is None or q is None for n, q in op['sv']):
            self.stats['fault.malformed_vector'] += 1
        elif any(n is not None and _canon(n) == SELF and q is not None and q > self.inst.self_seq for n, q in op['sv']):
            self.stats['fault.overclaiming_vector'] += 1
        self.log('rx', nonce=op['nonce'], sv=op['sv'], vkind=op.get('kind', 'ok'), extra=bool(op.get('extra_comp')),
                 short=bool(op.get('short')), delivered=self.face.deliver(wire), state=self.inst.state.name)
        self.tok('R')

    def _run_ops(self, batch):
        for fn, op in batch:
            try:
                fn(op)
            except Exception as e:
                self.harness_failure = f'op {op.get("op")}: {type(e).__name__}: {e}'
                self.loop.stop()
                return

    def execute(self, keep_events=False):
        self.harness_failure = None
        try:
            def start():
                t = self.loop.create_task(self.app.main_loop())
                self.harness_tasks.add(t)
            self.loop.call_soon(start)
            table = {'start': self.op_start, 'stop': self.op_stop, 'new_data': self.op_new_data, 'rx': self.op_rx,
                     'restart': self.op_restart, 'face_down': self.op_face_down}
            ops = sorted(self.scenario['ops'], key=lambda o: o['at'])
            i = 0
            while i < len(ops):
                j = i
                while j < len(ops) and ops[j]['at'] == ops[i]['at']:
                    j += 1
                self.at(ops[i]['at'], self._run_ops, [(table[o['op']], o) for o in ops[i:j]])
                i = j
            end = (ops[-1]['at'] if ops else 0) + int(self.scenario.get('sup_interval', 0.2) * 2e6) + 50000
            self.at(end, self._finish)
            limit = self.run()
            if self.harness_failure:
                raise HarnessError(self.harness_failure)
            if not limit:
                self._judge()
            res = self.result(limit, keep_events)
            n_rx = sum(1 for o in ops if o['op'] == 'rx')
            res.nontrivial = n_rx >= 2 and any(e['k'] == 'sup-end' for e in self.events)
            return res
        finally:
            self.close()

    def _finish(self):
        self.log('final')
        try:
            self.inst.stop()
        except Exception:
            pass
        if self.face.running:
            self.app.shutdown()

    # ---- oracle ----------------------------------------------------------------------------
    def _judge(self):
        judge_node(self, self.events, SELF)


def judge_node(self, ev, selfname=None, check_tasks=True):
    """Reference-model check of one instance's history (`self` is the World used for reporting)."""
    selfname = selfname or SELF
    selfk = node_key(selfname)
    rx_by_nonce = {e['nonce']: e for e in ev if e['k'] == 'rx'}
    handled = {e['nonce']: e for e in ev if e['k'] == 'handled'}
    heard = None            # merged dict of the vectors heard in the current suppression period
    relaxed_period = False
    for e in ev:
        k = e['k']
        if k == 'handled':
            rx = rx_by_nonce.get(e['nonce'])
            if rx is None:
                continue
            before, after = e['before'], e['after']
            cls, vec = classify_vector(rx, before.get(selfk), selfname)
            raised_some = any(after.get(n) is not None and (before.get(n) is None or after[n] > before[n])
                              for n in after)
            if e['raised'] and 'scripted application error' not in str(e['raised']):
                self.violate('C18', 'handler-raised', 'svs', e['where'],
                             f'sync handler raised {e["raised"]} on vector {rx["sv"]} ({cls})')
            if cls == 'reject':
                if _nz(after) != _nz(before):
                    self.violate('C18', 'merged-rejected', 'svs', rx['vkind'],
                                 f'vector {rx["sv"]} ({rx["vkind"]}) must be ignored entirely but changed the local '
                                 f'vector from {_fmt(before)} to {_fmt(after)}')
                if e['callbacks']:
                    self.violate('C18', 'callback-spurious', 'svs', 'reject', 'missing-data callback fired for an ignored vector')
            elif cls == 'accept':
                want = dict(before)
                for n, s in vec.items():
                    if want.get(n) is None or s > want[n]:
                        want[n] = s
                if _nz(after) != _nz(want):
                    self.violate('C18', 'merge', 'svs', 'entrywise-max',
                                 f'after vector {rx["sv"]}: local vector is {_fmt(after)}, entry-wise maximum of '
                                 f'{_fmt(before)} and the vector is {_fmt(want)}')
                if bool(e['callbacks']) != raised_some or e['callbacks'] > 1:
                    self.violate('C18', 'callback', 'svs', 'fires' if e['callbacks'] else 'missing',
                                 f'vector {rx["sv"]} {"raised" if raised_some else "did not raise"} an entry '
                                 f'({_fmt(before)} -> {_fmt(after)}) but the missing-data callback fired {e["callbacks"]}x')
            else:       # partly malformed: either ignored or the valid entries merged; callback consistent
                self.ambiguous += 1
                if bool(e['callbacks']) != raised_some and not e['raised']:
                    self.violate('C18', 'callback', 'svs', 'partial',
                                 f'vector {rx["sv"]}: local vector {_fmt(before)} -> {_fmt(after)} but callback fired {e["callbacks"]}x')
            # suppression bookkeeping
            if cls == 'accept' or (cls == 'unclear' and after != before):
                if e['state_before'] == 'SyncSteady' and e['state_after'] == 'SyncSuppression':
                    heard = dict(vec)
                    relaxed_period = cls != 'accept'
                elif e['state_before'] == 'SyncSuppression' and heard is not None:
                    for n, s in vec.items():
                        if heard.get(n) is None or s > heard[n]:
                            heard[n] = s
                    relaxed_period = relaxed_period or cls != 'accept'
            elif cls == 'unclear' and e['state_before'] == 'SyncSuppression':
                relaxed_period = True
        elif k == 'publish':
            own_now = (e.get('local') or {}).get(selfk)
            if e.get('self_seq') is not None and own_now is not None and own_now != e['self_seq']:
                self.violate('C18', 'publish-seq', 'svs', 'own-entry',
                             f'after new_data() the own entry of the local vector is {own_now} but the instance counts '
                             f'{e["self_seq"]} own publications')
            if e.get('ret') is None and e.get('face_down') and str(e.get('exc', '')).startswith('NetworkError'):
                heard = None
                continue            # the face could not send: documented NetworkError; nothing more to judge here
            if e.get('ret') is None:
                self.violate('C18', 'publish-raised', 'svs', e.get('where', '?'), f'new_data() raised {e.get("exc")}')
                continue
            if e['ret'] != e['before'] + 1 or e['local'].get(selfk) != e['before'] + 1:
                self.violate('C18', 'publish-seq', 'svs', 'new_data',
                             f'new_data() returned {e["ret"]} with own entry {e["local"].get(selfk)}; previous sequence number {e["before"]}')
            if e['running'] and not e.get('face_down'):
                ok = False
                for x in ev:
                    if x['k'] == 'tx' and x['seq'] > e['seq0'] and x['t'] <= e['t'] + 200:
                        if x['sv'] is not None and all(x['sv'].get(n) == s for n, s in e['local'].items()) \
                                and len(x['sv']) >= len(e['local']):
                            ok = True
                            break
                        if x['sv'] is not None and x['sv'].get(selfk, -1) >= e['ret'] and \
                                all(x['sv'].get(n, -1) >= s for n, s in e['local'].items()):
                            ok = True       # a newer full vector (another publication in the same instant)
                            break
                stopped = any(x['k'] == 'stop' and e['seq'] < x['seq'] and x['t'] <= e['t'] + 200 for x in ev)
                # a vector heard in the same instant that already contains the new sequence number: the group
                # evidently knows it, the race with the suppression logic is not judged
                known = any(x['k'] == 'rx' and abs(x['t'] - e['t']) <= 200 and
                            any(n == selfname and sq is not None and sq >= e['ret'] for n, sq in x['sv']) for x in ev)
                if known:
                    self.ambiguous += 1
                if not ok and not stopped and not known:
                    self.violate('C18', 'publish-no-interest', 'svs', 'new_data',
                                 f'new_data() -> {e["ret"]} at t={e["t"]}us was not followed promptly by a sync Interest '
                                 f'carrying the full vector {_fmt(e["local"])}')
            heard = None        # a publication ends the suppression period
        elif k == 'sup-end':
            last_face = next((x['k'] for x in reversed(ev) if x['k'] in ('face-down', 'face-up') and x['seq'] < e['seq']), None)
            face_was_down = last_face == 'face-down'
            if e['by'] == 'timer' and heard is not None and not relaxed_period and not face_was_down:
                local = e['local']
                needed = any(s is not None and s > (heard.get(n) or 0) for n, s in local.items())
                sent = [x for x in e['tx'] if x is not None]
                if needed and not sent:
                    self.violate('C18', 'suppression-silent', 'svs', 'on_timer',
                                 f'suppression ended with local {_fmt(local)} newer than the vectors heard {_fmt(heard)} '
                                 f'but no sync Interest was emitted (library aggregate: {_fmt(e["agg"])})')
                elif not needed and sent:
                    self.violate('C18', 'suppression-chatty', 'svs', 'on_timer',
                                 f'suppression ended with local {_fmt(local)} not newer than the vectors heard {_fmt(heard)} '
                                 f'but a sync Interest was emitted')
                elif sent and not all(sent[0].get(n) == s for n, s in local.items()):
                    self.violate('C18', 'interest-vector', 'svs', 'on_timer',
                                 f'sync Interest carries {_fmt(sent[0])}, local vector is {_fmt(local)}')
            heard = None
        elif k in ('stop', 'start'):
            heard = None
    # every sync Interest has one cause: no second one for the same timer expiry, none right after a suppression period was
    # decided without one
    txs = [x for x in ev if x['k'] == 'tx']
    pubs = [x for x in ev if x['k'] == 'publish']
    supends = [x for x in ev if x['k'] == 'sup-end' and x['by'] == 'timer']
    for i, x in enumerate(txs):
        if any(abs(p_['t'] - x['t']) <= 200 for p_ in pubs):
            continue
        dec = next((d for d in supends if d['step'] < x['step'] and 0 <= x['t'] - d['t'] <= 200), None)
        if dec is not None and not [y for y in dec['tx'] if y is not None]:
            self.violate('C18', 'suppression-chatty', 'svs', 'after-decision',
                         f'a suppression period ended at t={dec["t"]}us without a sync Interest (local {_fmt(dec["local"])}), '
                         f'yet one was emitted at t={x["t"]}us with nothing published in between')
            break
        prev = txs[i - 1] if i else None
        if prev is not None and x['t'] - prev['t'] <= 200 and prev['sv'] == x['sv'] and prev['step'] != x['step'] \
                and not any(abs(p_['t'] - prev['t']) <= 200 for p_ in pubs) \
                and not any(r['k'] in ('rx', 'handled', 'start') and prev['t'] - 200 <= r['t'] <= x['t'] + 200 for r in ev):
            self.violate('C18', 'duplicate-interest', 'svs', 'on_timer',
                         f'two sync Interests with the same vector {_fmt(x["sv"])} were emitted at t={prev["t"]}us and '
                         f't={x["t"]}us for one timer expiry (nothing published or heard in between)')
            break
    for e in ev:
        if e['k'] == 'sup-stuck':
            self.violate('C18', 'suppression-stuck', 'svs', 'on_timer',
                         f'the instance entered suppression at t={e["since"]}us and is still in suppression at t={e["t"]}us, '
                         f'longer than any suppression timer it can sample ({e["bound"]}us): the period never ended, so no '
                         f'decision about a sync Interest was taken (local {_fmt(e["local"])})')
    if not check_tasks:
        return
    for t in self.loop.unretrieved_task_errors():
        if t in self.harness_tasks:
            continue
        exc = t.exception()
        if 'scripted application error' in str(exc):
            continue        # the application's callback raised on purpose: the handler task carries that exception
        self.violate('C18', 'task-died', 'svs', innermost_ndn_frame(exc), f'background task ended with {exc_brief(exc)}')
    for rep in self.loop.exc_reports:
        exc = rep['exc']
        if 'scripted application error' in str(exc):
            continue
        self.violate('C18', 'loop-exc', 'svs', innermost_ndn_frame(exc) if exc else 'loop',
                     f'{rep["message"]} {rep["exc_type"]}')


def classify_vector(rx, own_seq, selfname=None):
    selfname = selfname or SELF
    """-> ('accept'|'reject'|'unclear', dict node-key -> seq)"""
    if rx['short'] or rx['extra'] or rx['vkind'] in ('truncated', 'badlen', 'generic'):
        return 'reject', {}
    vec = {}
    partial = False
    for n, s in rx['sv']:
        if n is None or s is None or _odd(n):
            # (a node id with a component type outside 1..65535 may be taken as a node or as a malformed entry)
            partial = True
            continue
        key = node_key(n)
        vec[key] = max(s, vec.get(key, -1))
    if not rx['sv']:
        return 'reject', {}
    if any(n is not None and _canon(n) == selfname and s is not None and own_seq is not None and s > own_seq for n, s in rx['sv']):
        return 'reject', {}
    if partial:
        return 'unclear', vec
    return 'accept', vec        # (a node listed twice counts with its highest number: entry-wise maximum)


def _nz(d):
    """an absent entry and sequence number 0 mean the same"""
    return {k: v for k, v in d.items() if v != 0}


def _fmt(d):
    if d is None:
        return None
    out = {}
    for k, v in d.items():
        try:
            els = tlvref.elements(k)
            comps = tlvref.name_components(k, els[0][2], els[0][3])
            out[bytes(comps[-1][2:]).decode()] = v
        except Exception:
            out[bytes(k).hex()] = v
    return out


# ----------------------------------------------------------------------------------------------


def generate(rng, seed, tier='quick'):
    sup = rng.choice([0.05, 0.2, 0.2])
    sync_int = rng.choice([30.0, 30.0, 1.0])
    rand16 = [rng.choice([0, 1, 32768, 65535, rng.randrange(65536)]) for _ in range(12)]
    ops = [{'at': 1000, 'op': 'start'}]
    nonce = 100
    t = 2000
    nodes = ['B', 'C', 'D']
    own = rng.choice([0, 0, 3]) if rng.random() < 0.9 else rng.choice([2 ** 32 - 2, 2 ** 32 - 1, 2 ** 32, 2 ** 63 - 2])
    model_local = {SELF: own}
    # sequence numbers across the 32-bit boundary and near the top of the 64-bit range for some nodes
    big = {n: rng.choice([2 ** 32 - 2, 2 ** 32, 2 ** 48, 2 ** 63 - 5]) for n in nodes if rng.random() < 0.08}
    n_events = rng.randint(2, 10)
    sup_us = int(sup * 1e6)
    last_trigger = None
    for _ in range(n_events):
        x = rng.random()
        # aim at the suppression window opened by an earlier vector
        if sync_int <= 1.0 and rng.random() < 0.25:
            # shortly before / around the expiry of the periodic timer (armed at start and after each emission)
            t = max(t, 1000 + int(sync_int * 1e6 * rng.choice([0.85, 0.9, 0.95, 1.0, 1.05, 1.09])) - rng.choice([0, 20000, 60000, 90000]))
        elif last_trigger is not None and rng.random() < 0.6:
            t_new = last_trigger + rng.choice([1, 1000, sup_us // 4, sup_us // 2 - 1000, sup_us // 2 + rng.randint(0, sup_us)])
            t = max(t, t_new) if rng.random() < 0.8 else t + rng.choice([1, 1000])
        else:
            t += rng.choice([0, 1, 1000, 10000, sup_us, 2 * sup_us])
        if x < 0.2:
            ops.append({'at': t, 'op': 'new_data'})
            model_local[SELF] += 1
            continue
        if x < 0.24:
            ops.append({'at': t, 'op': rng.choice(['stop', 'start', 'restart', 'restart'])})
            continue
        if x < 0.27:
            ops.append({'at': t, 'op': 'face_down', 'dur_us': rng.choice([1, 1000, sup_us, 3 * sup_us, int(sync_int * 1.2e6)])})
            if rng.random() < 0.6:
                ops.append({'at': t + rng.choice([0, 1, 500]), 'op': 'new_data'})
                model_local[SELF] += 1
            continue
        nonce += 1
        kind = 'ok'
        sv = []
        mode = pick(rng, [('mixed', 40), ('older', 15), ('newer', 15), ('equal', 8), ('overclaim', 7), ('malformed', 15)])
        cand = [SELF] + nodes
        members = [n for n in cand if rng.random() < 0.6] or [rng.choice(cand)]
        rng.shuffle(members)
        for n in members:
            cur = model_local.get(n, 0)
            if mode == 'older':
                s = max(0, cur - rng.randint(0, 2))
            elif mode == 'newer':
                s = cur + rng.randint(0, 2) if n != SELF else cur
            elif mode == 'equal':
                s = cur
            else:
                s = max(0, cur + rng.randint(-2, 2)) if n != SELF else max(0, cur - rng.randint(0, 2))
            if n in big and s < big[n] and mode in ('newer', 'mixed'):
                s += big[n]
            sv.append([n, s])
        if sv and rng.random() < 0.07:
            # one node listed twice, with different numbers, in either order
            n0, s0 = rng.choice(sv)
            if s0 is not None:
                sv.insert(rng.randrange(len(sv) + 1), [n0, max(0, s0 + rng.choice([-2, -1, 1, 2]))])
        if sv and rng.random() < 0.06:
            k0 = rng.randrange(len(sv))
            sv[k0] = [sv[k0][0] + '~nm', sv[k0][1]]         # non-minimal encoding of that node's name
        if sv and rng.random() < 0.05:
            sv.insert(rng.randrange(len(sv) + 1), [rng.choice(nodes) + rng.choice(sorted(ODD_TYPES)), rng.randint(1, 5)])
        op = {'at': t, 'op': 'rx', 'nonce': nonce, 'sv': sv}
        if mode == 'overclaim':
            sv.insert(rng.randrange(len(sv) + 1), [SELF + ('~nm' if rng.random() < 0.4 else ''), model_local[SELF] + rng.randint(1, 3)])
            sv[:] = [e for i, e in enumerate(sv) if e[0] != SELF or e[1] > model_local[SELF] or rng.random() < 0.5]
        elif mode == 'malformed':
            m = rng.choice(['truncated', 'badlen', 'generic', 'extra_comp', 'short', 'empty', 'no_node', 'no_seq', 'no_seq'])
            if m in ('truncated', 'badlen', 'generic'):
                op['kind'] = m
            elif m == 'extra_comp':
                op['extra_comp'] = True
            elif m == 'short':
                op['short'] = True
            elif m == 'empty':
                op['sv'] = []
            elif m == 'no_node':
                sv[rng.randrange(len(sv))][0] = None
            else:
                sv[rng.randrange(len(sv))][1] = None
        else:
            for n, s in sv:
                if s is not None and n is not None and s > model_local.get(_canon(n), 0) and _canon(n) != SELF:
                    model_local[_canon(n)] = s
            last_trigger = t
        ops.append(op)
        if mode == 'overclaim' and rng.random() < 0.5:
            # the application catches up with what the vector claimed, and the very same vector (byte for byte, in a new
            # Interest) is heard again: now it claims nothing the node has not produced
            claimed = max([e[1] for e in sv if e[0] is not None and _canon(e[0]) == SELF and e[1] is not None] or [0])
            if 0 < claimed - model_local[SELF] <= 4 and all(e[0] is not None and e[1] is not None for e in sv):
                for _k in range(claimed - model_local[SELF]):
                    t += rng.choice([1, 1000, sup_us])
                    ops.append({'at': t, 'op': 'new_data'})
                    model_local[SELF] += 1
                t += rng.choice([1000, sup_us, 3 * sup_us])
                nonce += 1
                ops.append({'at': t, 'op': 'rx', 'nonce': nonce, 'sv': copy.deepcopy(sv)})
                for n, s_ in sv:
                    if s_ > model_local.get(_canon(n), 0) and _canon(n) != SELF:
                        model_local[_canon(n)] = s_
                last_trigger = t
    extra = {}
    if rng.random() < 0.1:
        extra['self_form'] = rng.choice(['wire', 'wire-nm'])
    if rng.random() < 0.12:
        extra['cb_raise'] = sorted(set(rng.randrange(4) for _ in range(rng.randint(1, 2))))
    return {'engine': 'svs', 'property': 'C18', 'seed': seed, **extra,
            'config': {'turn_cost_us': rng.choice([0, 0, 1]), 'wall_gran_us': 1000, 'debug_log': rng.random() < 0.2},
            'sup_interval': sup, 'sync_interval': sync_int, 'start_seq': own, 'rand16': rand16, 'ops': ops}


def pick(rng, pairs):
    tot = sum(w for _v, w in pairs)
    x = rng.random() * tot
    for v, w in pairs:
        x -= w
        if x <= 0:
            return v
    return pairs[-1][0]


def execute(sc, keep_events=False):
    w = SvsWorld(sc)
    return w.execute(keep_events)


def simplifications(sc):
    for key, val in (('turn_cost_us', 0), ('debug_log', False)):
        if sc['config'].get(key) != val:
            c = copy.deepcopy(sc)
            c['config'][key] = val
            yield c
    if sc.get('rand16'):
        c = copy.deepcopy(sc)
        c['rand16'] = []
        yield c
    for i, op in enumerate(sc['ops']):
        if op['op'] == 'rx' and len(op.get('sv', [])) > 1:
            for j in range(len(op['sv'])):
                c = copy.deepcopy(sc)
                del c['ops'][i]['sv'][j]
                yield c
