"""Pipeline engine: a real NDNApp (legacy `ndn.app` or current `ndn.appv2`) on a direct or real
face, a scripted peer, scripted caller tasks, validators and handlers.  Execution is a pure function
of the scenario; no PRNG decides anything at run time (the seeded one only supplies nonces)."""
import asyncio
import hashlib

from simkit import tlvref
from simkit.core import World, HarnessError, innermost_ndn_frame, exc_brief
from simkit.net import DirectFace, StreamPeer, DatagramPeer

import ndn.encoding as enc
from ndn import types as ndn_types
from ndn.security import DigestSha256Signer, NullSigner, HmacSha256Signer


HMAC_KEY = b'simulated-hmac-key-0123456789abc'


def comps_of(name):
    """Scenario name (list of str) -> list of component TLV bytes (generic components;
    'seg=3', 'sha256digest=<hex>' are typed)."""
    return tlvref.name_from_uri('/' + '/'.join(name)) if name else []


def _real_uri_part(part):
    """the scenario's compact `<type>=~rep:<n>:<hex>` spelling is private to the simulator: spell it as a real NDN URI"""
    head, sep, tail = part.partition('=')
    if sep and tail.startswith('~rep:'):
        _r, n, hx = tail.split(':')
        return head + '=' + ''.join('%%%02X' % b for b in bytes.fromhex(hx) * int(n))
    return part


class _FalsyCallable:
    def __init__(self, fn):
        self.fn = fn

    def __call__(self, *a, **k):
        return self.fn(*a, **k)

    def __len__(self):
        return 0


def name_in_repr(name, rep, bufs=None):
    """The same name in the representation the scenario asks for. Caller-owned mutable buffers behind the representation
    are appended to `bufs` (the caller of the library may re-use them once the call has returned)."""
    comps = comps_of(name)
    if rep == 'ro_mv_ba':
        # read-only views over buffers the caller owns: read-only is not immutable
        bs = [bytearray(c) for c in comps]
        if bufs is not None:
            bufs.extend(bs)
        return [memoryview(b).toreadonly() for b in bs]
    if rep == 'wire_ro_mv_ba':
        b = bytearray(tlvref.name_tlv(comps))
        if bufs is not None:
            bufs.append(b)
        return memoryview(b).toreadonly()
    if rep == 'uri':
        return '/' + '/'.join(_real_uri_part(s_) for s_ in name)
    if rep == 'strlist':
        # in a component list a str is a literal generic value, not URI syntax: typed/escaped ones go as bytes
        return [s_ if s_.isalnum() else bytes(c) for s_, c in zip(name, comps)]
    if rep == 'bytes':
        return [bytes(c) for c in comps]
    if rep == 'bytearray':
        return [bytearray(c) for c in comps]
    if rep == 'memoryview':
        return [memoryview(bytes(c)) for c in comps]
    if rep == 'mixed':
        out = []
        for i, (s, c) in enumerate(zip(name, comps)):
            out.append([s if s.isalnum() else bytes(c), bytes(c), bytearray(c), memoryview(bytes(c))][i % 4])
        return out
    if rep == 'wire':
        return tlvref.name_tlv(comps)
    if rep == 'wire_mv':
        return memoryview(tlvref.name_tlv(comps))
    raise HarnessError(f'unknown name representation {rep}')


def _signer(kind, for_interest=False):
    if kind in (None, 'none'):
        return None
    if kind == 'digest':
        return DigestSha256Signer(for_interest=for_interest)
    if kind == 'null':
        return NullSigner()
    if kind == 'hmac':
        return HmacSha256Signer('simkey', HMAC_KEY)
    raise HarnessError(f'unknown signer {kind}')


def content_bytes(spec):
    if spec is None:
        return None
    if isinstance(spec, int):
        return bytes((i * 7 + spec) & 0xff for i in range(spec))
    if isinstance(spec, str):
        return bytes.fromhex(spec)
    raise HarnessError('bad content spec')


class DanglingRef(Exception):
    """a scripted operation refers to something the system has not produced (yet): the operation is skipped"""


class Materializer:
    """Packet specs -> wire bytes (inner network packets with the real encoder; LP envelopes and
    mutations with the independent writer)."""

    def __init__(self, world):
        self.world = world
        self.cache = {}

    def inner(self, pid):
        if pid in self.cache:
            return self.cache[pid]
        pk = self.world.scenario['packets']
        if str(pid) in pk:
            spec = pk[str(pid)]
        elif pid in pk:
            spec = pk[pid]
        else:
            raise DanglingRef(f'packet {pid} is not part of the (minimised) scenario any more')
        wire = self._build(spec)
        self.cache[pid] = wire
        return wire

    def _build(self, spec):
        k = spec['k']
        if k == 'interest_as_sent':
            w = self.world.express_wire.get(spec['iid'])
            if w is None:
                raise DanglingRef('interest_as_sent before the Interest was sent')
            return w
        if k == 'data':
            name = [bytes(c) for c in comps_of(spec['name'])]
            if spec.get('reply_to') is not None:
                w = self.world.express_wire.get(spec['reply_to'])
                if w is None:
                    raise DanglingRef('reply_to before the Interest was sent')
                name = [bytes(c) for c in tlvref.parse_interest(w).name] + name
            mi = enc.MetaInfo(content_type=spec.get('ctype', 0), freshness_period=spec.get('fresh'),
                              final_block_id=None)
            wire = enc.make_data(name, mi, content_bytes(spec.get('content', 0)),
                                 signer=_signer(spec.get('sig', 'digest')))
            return bytes(wire)
        if k == 'interest':
            name = [bytes(c) for c in comps_of(spec['name'])]
            if spec.get('digest_of') is not None:
                name.append(tlvref.tlv(tlvref.T_IMPLICIT_DIGEST,
                                       hashlib.sha256(self.inner(spec['digest_of'])).digest()))
            ip = enc.InterestParam(can_be_prefix=spec.get('cbp', False), must_be_fresh=spec.get('mbf', False),
                                   nonce=spec.get('nonce'), lifetime=spec.get('lifetime', 4000),
                                   hop_limit=spec.get('hop'))
            ap = content_bytes(spec.get('app_param'))
            sig = spec.get('sig')
            if sig and ap is None:
                ap = b''
            wire = bytes(enc.make_interest(name, ip, ap, signer=_signer(sig, for_interest=True)))
            if spec.get('no_sigvalue') and sig:
                wire = self._drop_sigvalue(wire)
            if spec.get('no_digest_comp'):
                wire = self._drop_digest_comp(wire)
            if spec.get('bad_digest'):
                wire = self._break_digest(wire)
            if spec.get('digest_from') is not None:
                # the digest component of an earlier, genuine Interest re-used with OTHER parameters
                donor = tlvref.parse_interest(self.inner(spec['digest_from']))
                mine = tlvref.parse_interest(wire)
                if donor.params_digest is not None and mine.params_digest is not None and donor.params_digest != mine.params_digest:
                    idx = wire.rfind(mine.params_digest)
                    wire = wire[:idx] + donor.params_digest + wire[idx + 32:]
            return wire
        if k == 'raw':
            return bytes.fromhex(spec['hex'])
        if k == 'mut':
            base = self.outer_of(spec['base'])
            return apply_mutation(base, spec['m'])
        raise HarnessError(f'unknown packet kind {k}')

    @staticmethod
    def _drop_digest_comp(wire):
        """a parameterised Interest whose name lacks the ParametersSha256DigestComponent altogether"""
        p = tlvref.parse_interest(wire)
        if p.params_digest is None:
            return wire
        _typ, vs, ve = tlvref.single(wire)
        els = tlvref.elements(wire, vs, ve)
        nm = tlvref.find(els, tlvref.T_NAME)
        comps = [c for c in tlvref.name_components(wire, nm[2], nm[3]) if c[0] != tlvref.T_PARAMS_DIGEST]
        body = tlvref.name_tlv(comps) + b''.join(wire[s_:e_] for (t_, s_, _v, e_) in els if t_ != tlvref.T_NAME)
        return tlvref.tlv(0x05, body)

    @staticmethod
    def _drop_sigvalue(wire):
        """a signed Interest without its InterestSignatureValue element (SignatureInfo stays), parameters digest re-computed"""
        _typ, vs, ve = tlvref.single(wire)
        els = tlvref.elements(wire, vs, ve)
        old = tlvref.parse_interest(wire).params_digest
        body = b''.join(wire[s_:e_] for (t_, s_, _v, e_) in els if t_ != 0x2e)
        tail = b''.join(wire[s_:e_] for (t_, s_, _v, e_) in els if t_ in (0x24, 0x2c))
        if old is None or not tail:
            return wire
        idx = body.find(old)
        body = body[:idx] + hashlib.sha256(tail).digest() + body[idx + 32:]
        return tlvref.tlv(0x05, body)

    @staticmethod
    def _break_digest(wire):
        p = tlvref.parse_interest(wire)
        if not p.has_params_digest:
            return wire
        idx = wire.rfind(p.params_digest)
        b = bytearray(wire)
        b[idx + 5] ^= 0x40
        return bytes(b)

    def outer_of(self, ref):
        """ref: {'pid':..,'lp':{...}} or pid -> bytes as sent on the wire (possibly LP-wrapped)."""
        if isinstance(ref, dict):
            wire = self.inner(ref['pid'])
            lp = ref.get('lp')
            if lp:
                wire = wrap_lp(wire, lp)
            return wire
        return self.inner(ref)


def wrap_lp(fragment, lp):
    """lp: {'token': hex|None, 'hdr': [[type, hex], ...] (already in legal order), 'nack': reason|'none'|absent,
            'frag': [index,count]|absent, 'nofrag': bool}"""
    headers = []
    for t, hx in lp.get('hdr', []):
        if t < tlvref.T_LP_FRAG_INDEX:
            headers.append((t, bytes.fromhex(hx)))      # Sequence (0x51) precedes the fragmentation headers
    if 'frag' in lp:
        fi, fc = lp['frag']
        if fi is not None:
            headers.append((tlvref.T_LP_FRAG_INDEX, tlvref.nni(fi)))
        if fc is not None:
            headers.append((tlvref.T_LP_FRAG_COUNT, tlvref.nni(fc)))
    if lp.get('token') is not None:
        headers.append((tlvref.T_LP_PIT_TOKEN, bytes.fromhex(lp['token'])))
    if 'nack' in lp:
        r = lp['nack']
        inner = b'' if r in (None, 'none') else tlvref.tlv(tlvref.T_LP_NACK_REASON, tlvref.nni(r))
        headers.append((tlvref.T_LP_NACK, inner))
    for t, hx in lp.get('hdr', []):
        if t >= tlvref.T_LP_FRAG_INDEX:
            headers.append((t, bytes.fromhex(hx)))
    return tlvref.make_lp(None if lp.get('nofrag') else fragment, headers, order=lp.get('order'))


def reframe_for_stream(wire):
    """Byte strings whose outer Type/Length do not frame them exactly cannot be *delivered* by a stream
    transport (they would just shift the framing of everything behind them): keep the bytes but give
    them a consistent outer Length."""
    if not wire:
        return wire
    pkts, rest = tlvref.frame_stream(wire)
    if pkts and not rest:
        return wire
    try:
        typ, n1 = tlvref.dec_var(wire, 0, strict=False)
    except tlvref.TlvError:
        return tlvref.tlv(wire[0] if wire[0] <= 0xfc else 6, wire[1:])
    try:
        _ln, n2 = tlvref.dec_var(wire, n1, strict=False)
        body = wire[n1 + n2:]
    except tlvref.TlvError:
        body = wire[n1:]
    return tlvref.tlv(typ, body)


def apply_mutation(wire, m):
    """One mutation of a wire: {'t':'flip','off':i,'x':mask} | {'t':'trunc','n':len} |
    {'t':'outerlen','d':delta} | {'t':'ins','off':i,'hex':..} | {'t':'del','off':i,'n':k}"""
    b = bytearray(wire)
    t = m['t']
    if t == 'flip':
        if b:
            off = m['off'] % len(b)
            b[off] ^= (m.get('x', 1) or 1) & 0xff
    elif t == 'trunc':
        b = b[:max(0, min(len(b), m['n']))]
    elif t == 'ins':
        off = m['off'] % (len(b) + 1)
        b[off:off] = bytes.fromhex(m['hex'])
    elif t == 'del':
        if b:
            off = m['off'] % len(b)
            del b[off:off + m.get('n', 1)]
    elif t == 'set':
        if b:
            off = m['off'] % len(b)
            b[off] = m['v'] & 0xff
    else:
        raise HarnessError(f'unknown mutation {t}')
    return bytes(b)


# ----------------------------------------------------------------------------------------------
# classification of received bytes with the library's own decoders (DESIGN section 4)


def classify(wire, lp_mode='lib'):
    """What does this byte string legitimately address?  Network-layer packets are always read with
    ndn's own decoders (DESIGN section 4); the link-layer envelope is read with ndn's decoder
    (lp_mode='lib', used when envelopes may be malformed) or with the independent reader
    (lp_mode='ref', used when the envelope itself is the subject and is generated well-formed).
    -> dict(kind='data'|'interest'|'nack'|'junk'|'unclear', ...)"""
    try:
        if lp_mode == 'ref' and wire and wire[0] == tlvref.T_LP_PACKET:
            try:
                lp = tlvref.parse_lp(wire)
            except tlvref.TlvError:
                return _classify(wire)
            # (FragIndex 0 and FragCount 1 are the values an unfragmented packet has anyway: spelling them out changes nothing)
            if not (lp.frag_index in (None, 0) and lp.frag_count in (None, 1)):
                return {'kind': 'junk', 'why': 'fragmented'}
            if not lp.in_order:
                return {'kind': 'junk', 'why': 'headers-out-of-order'}
            if lp.repeated_single:
                return {'kind': 'unclear', 'why': 'repeated header'}
            if not lp.fragment:
                return {'kind': 'junk', 'why': 'idle'}
            if lp.nack:
                # NDNLPv2: a Nack header without a NackReason element means reason None (0)
                name, _, _, _ = enc.parse_interest(lp.fragment, with_tl=True)
                return {'kind': 'nack', 'name': [bytes(c) for c in name],
                        'reason': 0 if lp.nack_reason is None else lp.nack_reason, 'lp': True}
            c = _classify(lp.fragment)
            c['lp'] = True
            if c['kind'] == 'interest':
                c['token'] = lp.pit_token
            return c
        if wire and wire[0] == tlvref.T_LP_PACKET:
            # whatever the library's envelope decoder says: an envelope that announces itself as a fragment
            # (FragIndex or FragCount present) addresses nothing
            try:
                lp = tlvref.parse_lp(wire)
                if not (lp.frag_index in (None, 0) and lp.frag_count in (None, 1)):
                    return {'kind': 'junk', 'why': 'fragmented'}
                if lp.in_order and lp.repeated_single:
                    return {'kind': 'unclear', 'why': 'repeated header'}
                if not lp.in_order:
                    # header fields out of order / behind the Fragment: a decoder that silently skips them reads another
                    # packet than the sender wrote
                    return {'kind': 'junk', 'why': 'headers-out-of-order'}
            except tlvref.TlvError:
                pass
        return _classify(wire)
    except Exception:
        return {'kind': 'junk'}


def _tl_ok(wire):
    typ, n1 = enc.parse_tl_num(wire, 0)
    ln, n2 = enc.parse_tl_num(wire, n1)
    return typ, n1 + n2 + ln == len(wire)


def _classify(wire):
    wire = bytes(wire)
    if not wire:
        return {'kind': 'junk'}
    typ, ok = _tl_ok(wire)
    token = None
    lp = False
    if typ == enc.LpTypeNumber.LP_PACKET:
        lpv = enc.parse_lp_packet_v2(wire, with_tl=True)
        lp = True
        frag = lpv.fragment
        token = bytes(lpv.pit_token) if lpv.pit_token is not None else None
        if frag is None or len(frag) == 0:
            return {'kind': 'junk'}
        frag = bytes(frag)
        if lpv.nack is not None:
            # NDNLPv2: a Nack header without a NackReason element means reason None (0)
            name, _, _, _ = enc.parse_interest(frag, with_tl=True)
            return {'kind': 'nack', 'name': [bytes(c) for c in name],
                    'reason': 0 if lpv.nack.nack_reason is None else lpv.nack.nack_reason, 'lp': True}
        inner = frag
        typ, _ = enc.parse_tl_num(inner, 0)
    else:
        inner = wire
    # an element that announces more bytes than its parent holds: malformed, whatever a lenient decoder makes of it.
    # The packet is still classified as the library's decoder reads it (DESIGN section 4); a separate rule reports when
    # such a packet was acted upon (known finding, see known_findings.txt)
    overrun = typ in (enc.TypeNumber.DATA, enc.TypeNumber.INTEREST) and not tlvref.well_nested(inner)
    if typ == enc.TypeNumber.DATA:
        name, meta, content, sig = enc.parse_data(inner, with_tl=True)
        for c in name:
            enc.Component.get_type(c)
        return {'kind': 'data', 'name': [bytes(c) for c in name], 'overrun': overrun,
                'content': None if content is None else bytes(content), 'inner': inner, 'lp': lp,
                'digest': hashlib.sha256(inner).digest()}
    if typ == enc.TypeNumber.INTEREST:
        name, param, app_param, sig = enc.parse_interest(inner, with_tl=True)
        digest_ok = None
        need = app_param is not None or sig.signature_info is not None
        if need:
            cov, val = sig.digest_covered_part, sig.digest_value_buf
            if not cov or not val:
                digest_ok = False
            else:
                h = hashlib.sha256()
                for blk in cov:
                    h.update(blk)
                digest_ok = h.digest() == bytes(val)
        return {'kind': 'interest', 'name': [bytes(c) for c in name], 'overrun': overrun, 'nonce': param.nonce,
                'lifetime': param.lifetime, 'app_param': None if app_param is None else bytes(app_param),
                'signed': sig.signature_info is not None, 'need': need, 'digest_ok': digest_ok,
                'token': token, 'lp': lp, 'inner': inner}
    return {'kind': 'junk'}


# ----------------------------------------------------------------------------------------------


class _StubKeychain:
    """v1 NDNApp wants a keychain object; the pipeline scenarios always pass explicit signers."""

    def get_signer(self, kwargs):
        return DigestSha256Signer()


class PipeWorld(World):
    def __init__(self, scenario, variant='asis'):
        super().__init__(scenario)
        cfg = self.cfg
        self.variant = variant          # 'asis' | 'bare' (strip the transparent LP envelopes)
        self.fe = cfg.get('frontend', 'v2')
        self.face_kind = cfg.get('face', 'direct')
        self.mat = Materializer(self)
        self.tx = []                    # packets the app sent (bytes)
        self.harness_tasks = set()
        self.callers = {}               # id -> task
        self.handlers = {}              # hid -> spec
        self.rx_count = 0
        self.reported_excs = []
        self.express_wire = {}
        self.rt_attached = set()
        self._stream_busy_until = 0
        self._stream_q = []
        self.set_ndn_log_level(bool(cfg.get('debug_log', False)))
        self._build_app()

    # --- construction ---------------------------------------------------------------------
    def _build_app(self):
        kind = self.face_kind
        if kind == 'direct':
            self.face = DirectFace(self._on_tx)
            self.face.rx_buffer = self.cfg.get('rx_buffer', 'bytes')
            self.face.on_tx_mutated = self._tx_mutated
            self.peer = None
        elif kind in ('tcp', 'unix'):
            from ndn.transport.stream_face import TcpFace, UnixFace
            self.peer = StreamPeer(self._on_tx)
            self.peer.on_tx_mutated = self._tx_mutated
            self.peer.install(self.seams)
            self.face = TcpFace('10.0.0.1', 6363) if kind == 'tcp' else UnixFace('/sim/nfd.sock')
        elif kind == 'udp':
            from ndn.transport.udp_face import UdpFace
            self.peer = DatagramPeer(self._on_tx)
            self.peer.install(self.loop)
            self.face = UdpFace('10.0.0.1', 6363)
        else:
            raise HarnessError(f'unknown face {kind}')
        if self.fe == 'v2':
            from ndn import appv2
            self.app = appv2.NDNApp(face=self.face)
        else:
            from ndn import app as appv1
            self.app = appv1.NDNApp(face=self.face, keychain=_StubKeychain())
        self.disp = None
        if self.cfg.get('dispatcher') and self.fe == 'v1':
            # app_support.Dispatcher behind a root route of the legacy front-end
            from ndn.app_support.dispatcher import Dispatcher
            self.disp = Dispatcher()
            disp_world = self

            def root(iname, param, app_param, **kw):
                ret = disp_world.disp.dispatch(iname, param, app_param)
                disp_world.log('dispatch-ret', nonce=param.nonce, name=[bytes(c) for c in iname], ret=ret)
            self.app.set_interest_filter('/', root)
        orig = self.face.callback
        world = self

        async def guarded(typ, data):
            try:
                return await orig(typ, data)
            except asyncio.CancelledError:
                raise
            except BaseException as e:
                world.log('rx-raised', exc=exc_brief(e), where=innermost_ndn_frame(e))
                world.violate('C06', 'rx-raised', world.fe, innermost_ndn_frame(e),
                              f'packet reception raised {exc_brief(e)}')
                world.reported_excs.append(e)
                raise
        self.face.callback = guarded

    def _on_tx(self, wire):
        self.tx.append(wire)
        self.log('tx', wire=wire)
        if self.cfg.get('nfd'):
            # a forwarder that accepts every rib command (the legacy front-end's register/unregister need one)
            try:
                p = tlvref.parse_interest(wire)
                names = [bytes(c) for c in p.name]
                if len(names) >= 4 and names[1] == tlvref.tlv(8, b'nfd'):
                    from engines.registration import build_response
                    k = self.nfd_cmds = getattr(self, 'nfd_cmds', 0) + 1
                    pols = self.cfg.get('nfd_fail') or []
                    pol = pols[(k - 1) % len(pols)] if pols else 'ok'
                    if pol != 'ok':
                        self.stats['fault.nfd_' + pol] += 1
                    if pol == 'silence':
                        return
                    if pol == 'nack':
                        self.after(100, self._nfd_reply, tlvref.make_nack(wire, 150))
                        return
                    code, text = (200, 'OK') if pol == 'ok' else (403, 'Unauthorized')
                    resp = bytes(enc.make_data(names, enc.MetaInfo(freshness_period=1000), build_response(code, text, ['x'], {}),
                                               signer=DigestSha256Signer()))
                    self.after(100, self._nfd_reply, resp)
            except tlvref.TlvError:
                pass

    def _nfd_reply(self, resp):
        if self.face_kind == 'direct':
            self.face.deliver(resp)

    def spawn(self, coro):
        t = self.loop.create_task(coro)
        self.harness_tasks.add(t)
        return t

    # --- pending-table observation (anchors: _pit / _int_tree) ------------------------------
    def pit_len(self):
        tab = getattr(self.app, '_pit', None) if self.fe == 'v2' else getattr(self.app, '_int_tree', None)
        if tab is None:
            return None
        try:
            n = 0
            for node in tab.itervalues():
                pl = getattr(node, 'pending_list', None)
                n += len(pl) if pl is not None else 1
            return n
        except Exception:
            return None

    # --- scripted pieces --------------------------------------------------------------------
    def make_validator(self, vspec, who):
        """who: ('express', id) | ('route', hid) | ('appdefault',)"""
        if vspec is None:
            return None
        world = self
        lat = vspec.get('latency_us', 0)
        verdict = vspec.get('verdict', 'PASS')
        rz = vspec.get('raise')

        async def run(name):
            world.log('val-start', who=list(who), name=[bytes(c) for c in name])
            if lat:
                await asyncio.sleep(lat / 1e6)
            world.log('val-end', who=list(who))
            if rz == 'timeout':
                raise TimeoutError()
            if rz == 'cancel':
                raise asyncio.CancelledError()

        if self.fe == 'v2':
            async def validator(name, sig, ctx):
                await run(name)
                return ndn_types.ValidResult[verdict]
        else:
            async def validator(name, sig):
                await run(name)
                return {'PASS': True, 'ALLOW_BYPASS': 1, 'FAIL': False, 'SILENCE': 0, 'TIMEOUT': None,
                        'TRUTHY_STR': 'ok', 'EMPTY': ''}.get(verdict, False)
        if vspec.get('shape') == 'future':
            # a plain function that hands back a Task (e.g. work pushed to an executor) instead of being `async def`
            inner = validator

            def validator(*a):
                return asyncio.ensure_future(inner(*a))
        if vspec.get('falsy'):
            return _FalsyCallable(validator)    # a validator OBJECT that happens to be falsy (e.g. holds an empty list)
        return validator

    def op_express(self, op):
        self.spawn(self._caller(op))

    async def _caller(self, op):
        iid = op['id']
        self.callers[iid] = asyncio.current_task()
        name = list(op['name'])
        comps = [bytes(c) for c in comps_of(name)]
        if op.get('digest_of') is not None:
            inner = self.mat.inner(op['digest_of'])
            comps.append(tlvref.tlv(tlvref.T_IMPLICIT_DIGEST, hashlib.sha256(inner).digest()))
        if op.get('placeholder') and op.get('app_param') is not None:
            ph = tlvref.tlv(tlvref.T_PARAMS_DIGEST, bytes(32))
            comps.insert(len(comps) if op['placeholder'] == 'end' or len(comps) < 2 else len(comps) - 1, ph)
        validator = self.make_validator(op.get('validator'), ('express', iid))
        kwargs = dict(can_be_prefix=op.get('cbp', False), must_be_fresh=op.get('mbf', False),
                      lifetime=op.get('lifetime', 4000), nonce=1000 + iid)
        if op.get('need_raw') and self.fe == 'v1':
            kwargs['need_raw_packet'] = True
        pobj = None
        if op.get('param_obj'):
            # the caller keeps ONE InterestParam object, passes it in and re-uses (edits) it for its next Interest
            pobj = enc.InterestParam(**kwargs)
            kwargs = {'interest_param': pobj}
        ev = self.log('express', id=iid, name=comps, cbp=op.get('cbp', False), lifetime=op.get('lifetime', 4000),
                      running=bool(self.face.running))
        bufs = None
        if op.get('name_buf'):
            # the caller builds the name in buffers of its own and re-uses them once express() has returned
            bufs = [bytearray(c) for c in comps]
            comps = bufs if op['name_buf'] == 'bytearray' else [memoryview(x) for x in bufs]
        self.tok(f'E{iid}')
        ntx = len(self.tx)
        if op.get('send_fails') and self.face_kind == 'direct' and self.face.running:
            self.face.fail_next_send = OSError(105, 'No buffer space available')
            self.stats['fault.send_fails'] += 1
            ev['send_fails'] = True
        try:
            if op.get('app_param') is not None:
                # parameterised, signed Interest: the name the Data must carry includes the parameters digest
                ap = content_bytes(op['app_param'])
                if self.fe == 'v2':
                    coro = self.app.express(comps, validator, app_param=ap, signer=DigestSha256Signer(for_interest=True), **kwargs)
                else:
                    coro = self.app.express_interest(comps, app_param=ap, validator=validator,
                                                     signer=DigestSha256Signer(for_interest=True), **kwargs)
            elif self.fe == 'v2':
                coro = self.app.express(comps, validator, **kwargs)
            else:
                coro = self.app.express_interest(comps, validator=validator, **kwargs)
            if bufs is not None:
                for x in bufs:
                    for i in range(2, len(x)):
                        x[i] ^= 0x5a        # (type and length bytes stay: still a well-formed component, another value)
                self.stats['fault.caller_reuses_name_buffer'] += 1
            if pobj is not None:
                pobj.can_be_prefix = not pobj.can_be_prefix
                pobj.must_be_fresh = not pobj.must_be_fresh
                pobj.lifetime = 1 if (pobj.lifetime or 0) > 1 else 777
                pobj.nonce = 7
            if len(self.tx) > ntx:
                try:
                    sent = tlvref.parse_interest(self.tx[ntx])
                    ev['name'] = [bytes(c) for c in sent.name]      # the full name as sent (with digest components)
                    self.express_wire[iid] = self.tx[ntx]
                except tlvref.TlvError:
                    pass
        except Exception as e:
            self.face.fail_next_send = None
            self.log('done', id=iid, out='sync-raise', exc=type(e).__name__, where=innermost_ndn_frame(e),
                     msg=exc_brief(e))
            return
        try:
            if op.get('await_delay_us'):
                # the application does something else before it awaits the result
                await asyncio.sleep(op['await_delay_us'] / 1e6)
                self.log('await-start', id=iid)
            res = await coro
            if self.fe == 'v2':
                dname, content, _ctx = res
            elif op.get('need_raw'):
                dname, _mi, content, raw = res
                try:
                    rp = tlvref.parse_data(bytes(raw))
                    if [bytes(c) for c in rp.name] != [bytes(c) for c in dname]:
                        raise tlvref.TlvError('another packet')
                except tlvref.TlvError:
                    self.violate('C03', 'raw-packet', self.fe, 'express',
                                 f'Interest {iid}: the raw packet handed out with Data {tlvref.name_tlv([bytes(c) for c in dname]).hex()} is not that Data packet: '
                                 f'{bytes(raw)[:24].hex()}...')
            else:
                dname, _mi, content = res
            self.log('done', id=iid, out='data', name=[bytes(c) for c in dname],
                     content=None if content is None else bytes(content))
        except ndn_types.InterestNack as e:
            self.log('done', id=iid, out='nack', reason=e.reason)
        except ndn_types.InterestTimeout:
            self.log('done', id=iid, out='timeout')
        except ndn_types.InterestCanceled:
            self.log('done', id=iid, out='canceled')
        except ndn_types.ValidationFailure as e:
            res = getattr(e, 'result', None)
            self.log('done', id=iid, out='invalid', name=[bytes(c) for c in e.name],
                     content=None if e.content is None else bytes(e.content),
                     result=getattr(res, 'name', repr(res)))
        except asyncio.CancelledError:
            self.log('done', id=iid, out='cancelled-error')
        except BaseException as e:
            self.log('done', id=iid, out='error', exc=type(e).__name__, where=innermost_ndn_frame(e),
                     msg=exc_brief(e))
        self.tok(f'D{iid}')

    def op_cancel(self, op):
        t = self.callers.get(op['id'])
        self.log('cancel', id=op['id'], live=bool(t is not None and not t.done()))
        self.tok(f'C{op["id"]}')
        if t is not None and not t.done():
            t.cancel()
            self.stats['fault.cancel'] += 1

    def op_rx(self, op):
        ref = op['pkt']
        try:
            if self.variant == 'bare' and isinstance(ref, dict) and ref.get('transparent'):
                wire = self.mat.inner(ref['pid'])
            else:
                wire = self.mat.outer_of(ref)
        except DanglingRef:
            self.log('rx-skipped', ref=ref if not isinstance(ref, dict) else ref.get('pid'))
            return
        if self.face_kind in ('tcp', 'unix'):
            wire = reframe_for_stream(wire)     # a stream transport only ever hands over framed elements
        refid = ref if not isinstance(ref, dict) else ref.get('pid')
        if self.face_kind in ('tcp', 'unix') and wire:
            # the stream face hands over one element at a time: one history entry per framed element
            parts = [w for _t, w in tlvref.frame_stream(wire)[0]]
        else:
            parts = [wire]
        evs = []
        for part in parts:
            idx = self.rx_count
            self.rx_count += 1
            self.tok(f'R{idx}')
            evs.append(self.log('rx', idx=idx, wire=part, delivered=False, t_last=self.now_us(), ref=refid))
        self._deliver(wire, op, evs)

    def _deliver(self, wire, op, evs):
        kind = self.face_kind
        if kind == 'direct':
            evs[0]['delivered'] = self.face.deliver(wire)
            return
        if kind == 'udp':
            evs[0]['delivered'] = self.peer.deliver(wire)
            return
        cuts = sorted(set(c % (len(wire) + 1) for c in op.get('cuts', []))) if wire else []
        gap = op.get('gap_us', 0)
        pieces = []
        last = 0
        for c in cuts:
            if c > last:
                pieces.append(wire[last:c])
                last = c
        if wire[last:] or not pieces:
            pieces.append(wire[last:])      # (a cut at the very end leaves no piece of its own: the packet is complete with the one before)
        if len(pieces) > 1:
            self.stats['fault.rechunk'] += 1
        # a byte stream is sequential: pieces are queued and fed strictly in order
        now = self.now_us()
        t_sched = max(now, self._stream_busy_until)
        for i, piece in enumerate(pieces):
            if i > 0:
                t_sched += gap
            self._stream_q.append((t_sched, piece, evs if i == len(pieces) - 1 else None))
            if t_sched > now:
                self.at(t_sched, self._pump, t_sched)
        self._stream_busy_until = t_sched
        self._pump()

    def _pump(self, due=0):
        now = max(self.now_us(), due)       # a timer may fire up to one clock resolution early
        q = self._stream_q
        while q and q[0][0] <= now:
            _t, piece, evs = q.pop(0)
            ok = self.peer.feed(piece)
            for ev in evs or ():
                ev['delivered'] = bool(ok)
                ev['t_last'] = now

    async def _v1_register(self, name, handler, validator):
        try:
            await self.app.register(name, handler, validator)
        except asyncio.CancelledError:
            raise
        except Exception as e:
            self.log('register-raised', exc=exc_brief(e), where=innermost_ndn_frame(e))

    async def _v1_unregister(self, name):
        try:
            await self.app.unregister(name)
        except asyncio.CancelledError:
            raise
        except Exception as e:
            self.log('unregister-raised', exc=exc_brief(e), where=innermost_ndn_frame(e))

    def _feed_many(self, pieces):
        for piece in pieces:
            self.peer.feed(piece)

    def op_attach(self, op):
        hid = op['hid']
        self.handlers[hid] = op
        caller_bufs = []
        name = name_in_repr(op['prefix'], op.get('repr', 'uri'), caller_bufs)
        validator = self.make_validator(op.get('validator'), ('route', hid))
        world = self
        reply_specs = op.get('replies', [])

        if self.fe == 'v2':
            def handler(iname, app_param, reply, context):
                nonce = getattr(context.get('int_param'), 'nonce', None)
                world.log('hcall', hid=hid, name=[bytes(c) for c in iname], nonce=nonce,
                          app_param=None if app_param is None else bytes(app_param),
                          token=None if context.get('pit_token') is None else bytes(context['pit_token']))
                world.tok(f'H{hid}')
                for k, rs in enumerate(reply_specs):
                    dwire = bytes(enc.make_data([bytes(c) for c in iname], enc.MetaInfo(),
                                                content_bytes(rs.get('content', 4)), signer=DigestSha256Signer()))
                    world.after(rs.get('delay_us', 0), world._do_reply, hid, nonce, k, reply, dwire)
        else:
            def handler(iname, param, app_param, **kw):
                world.log('hcall', hid=hid, name=[bytes(c) for c in iname], nonce=param.nonce,
                          app_param=None if app_param is None else bytes(app_param), token=None)
                world.tok(f'H{hid}')
                for k, rs in enumerate(reply_specs):
                    dwire = bytes(enc.make_data([bytes(c) for c in iname], enc.MetaInfo(),
                                                content_bytes(rs.get('content', 4)), signer=DigestSha256Signer()))
                    world.after(rs.get('delay_us', 0), world._do_put, hid, param.nonce, k, dwire)
        if op.get('falsy_handler'):
            handler = _FalsyCallable(handler)       # a callable object that happens to be falsy (e.g. defines __len__)
        try:
            key = tuple(bytes(c) for c in comps_of(op['prefix']))
            if self.disp is not None:
                self.disp.register(name, handler)
            elif self.fe == 'v2':
                self.app.attach_handler(name, handler, validator)
            elif op.get('via') == 'register' and self.cfg.get('nfd') and key not in self.rt_attached and self.face.running:
                # legacy front-end: register() installs the filter (first thing it does) and then sends the command
                self.spawn(self._v1_register(name, handler, validator))
                caller_bufs = []        # register() has not run yet: the caller still needs its buffers
            else:
                self.app.set_interest_filter(name, handler, validator)
            self.rt_attached.add(key)
            self.log('attach', hid=hid, prefix=comps_of(op['prefix']), ok=True)
        except ValueError as e:
            self.log('attach', hid=hid, prefix=comps_of(op['prefix']), ok=False, exc='ValueError')
        except Exception as e:
            self.log('attach', hid=hid, prefix=comps_of(op['prefix']), ok=False, exc=type(e).__name__,
                     where=innermost_ndn_frame(e))
        for b in caller_bufs:
            # the caller re-uses its buffers once the call has returned
            b[:] = b'\x5a' * len(b)
            self.stats['fault.caller_reuses_prefix_buffer'] += 1
        self.tok(f'A{hid}')

    def _do_reply(self, hid, nonce, k, reply, dwire):
        n0 = len(self.tx)
        try:
            ret = reply(dwire)
            self.log('reply', hid=hid, nonce=nonce, ri=k, ret=bool(ret), ret_repr=repr(ret), data=dwire,
                     sent=self.tx[n0:])
        except ndn_types.NetworkError:
            self.log('reply', hid=hid, nonce=nonce, ri=k, ret=None, ret_repr='NetworkError', data=dwire,
                     sent=self.tx[n0:])
        except Exception as e:
            self.log('reply', hid=hid, nonce=nonce, ri=k, ret=None, ret_repr='raised:' + type(e).__name__,
                     data=dwire, sent=self.tx[n0:], where=innermost_ndn_frame(e))

    def _do_put(self, hid, nonce, k, dwire):
        n0 = len(self.tx)
        try:
            self.app.put_raw_packet(dwire)
            self.log('reply', hid=hid, nonce=nonce, ri=k, ret=True, ret_repr='put', data=dwire, sent=self.tx[n0:])
        except ndn_types.NetworkError:
            self.log('reply', hid=hid, nonce=nonce, ri=k, ret=None, ret_repr='NetworkError', data=dwire,
                     sent=self.tx[n0:])

    def op_register_only(self, op):
        if self.fe != 'v2' and self.cfg.get('nfd') and self.face.running:
            self.spawn(self._v1_register(name_in_repr(op['prefix'], 'uri'), None, None))
            self.log('register-only', prefix=comps_of(op['prefix']))

    def op_detach(self, op):
        name = name_in_repr(op['prefix'], op.get('repr', 'uri'))
        try:
            key = tuple(bytes(c) for c in comps_of(op['prefix']))
            if self.disp is not None:
                self.disp.unregister(name)
            elif self.fe == 'v2':
                self.app.detach_handler(name)
            elif op.get('via') == 'unregister' and self.cfg.get('nfd') and key in self.rt_attached and self.face.running:
                # legacy front-end: unregister() removes the filter (first thing it does) and then sends the command
                self.spawn(self._v1_unregister(name))
            else:
                self.app.unset_interest_filter(name)
            self.rt_attached.discard(key)
            self.log('detach', prefix=comps_of(op['prefix']), ok=True)
        except KeyError:
            self.log('detach', prefix=comps_of(op['prefix']), ok=False, exc='KeyError')
        except Exception as e:
            self.log('detach', prefix=comps_of(op['prefix']), ok=False, exc=type(e).__name__,
                     where=innermost_ndn_frame(e))
        self.tok('X')

    def op_shutdown(self, op):
        self.log('shutdown', cause='manual', running=bool(self.face.running))
        self.tok('S')
        self.stats['fault.shutdown'] += 1
        self.app.shutdown()

    def op_eof(self, op):
        self.log('shutdown', cause=op['op'], running=bool(self.face.running))
        self.tok('S')
        self.stats['fault.' + op['op']] += 1
        if self.face_kind in ('tcp', 'unix'):
            if op['op'] == 'reset':
                self.peer.reset(op.get('exc', 'reset'))
            else:
                self.peer.eof()
        elif self.face_kind == 'udp':
            self.peer.error(ConnectionRefusedError('simulated ICMP unreachable'))
        elif op.get('crash'):
            # the transport's run() ends with an exception of its own (a driver error, a bug in a third-party face)
            exc = RuntimeError('simulated transport failure')
            self.reported_excs.append(exc)      # main_loop may pass it on: that is the harness's doing
            self.stats['fault.face_run_raises'] += 1
            self.face.crash(exc)
        else:
            self.face.peer_close()

    def op_wall_jump(self, op):
        self.wall.jump(op['delta_ms'] * 1000)
        self.stats['fault.wall_jump'] += 1
        self.log('wall_jump', delta_ms=op['delta_ms'])
        self.tok('J')

    # --- run --------------------------------------------------------------------------------
    def horizon_us(self):
        ops = self.scenario['ops']
        tail = 0
        for op in ops:
            if op['op'] == 'attach':
                d = max([rs.get('delay_us', 0) for rs in op.get('replies', [])] or [0])
                tail = max(tail, d + (op.get('validator') or {}).get('latency_us', 0))
        tail += (self.scenario.get('app_int_validator') or {}).get('latency_us', 0)
        end = 0
        for op in ops:
            t = op['at']
            if op['op'] == 'express':
                t += (op.get('lifetime') or 4000) * 1000 + (op.get('validator') or {}).get('latency_us', 0) \
                    + 2 * (op.get('await_delay_us') or 0)
                if op.get('await_delay_us'):
                    t += 110_000        # the current front-end waits 100 ms from a first await that comes after the deadline
            elif op['op'] == 'rx':
                t += tail + op.get('gap_us', 0) * (len(op.get('cuts', [])) + 1)
            end = max(end, t)
        # a backward step of the wall clock lengthens what the current front-end believes is left of a lifetime
        end += sum(abs(o.get('delta_ms', 0)) * 1000 for o in ops if o['op'] == 'wall_jump')
        return end + 20_000

    def execute(self, keep_events=False):
        limit = None
        try:
            self.loop.call_soon(self._start)
            table = {'express': self.op_express, 'cancel': self.op_cancel, 'rx': self.op_rx,
                     'attach': self.op_attach, 'detach': self.op_detach, 'shutdown': self.op_shutdown,
                     'eof': self.op_eof, 'reset': self.op_eof, 'wall_jump': self.op_wall_jump,
                     'register_only': self.op_register_only}
            ops = sorted(self.scenario['ops'], key=lambda o: o['at'])      # stable: scripted order kept
            i = 0
            while i < len(ops):
                j = i
                while j < len(ops) and ops[j]['at'] == ops[i]['at']:
                    j += 1
                self.at(ops[i]['at'], self._run_ops, [(table[o['op']], o) for o in ops[i:j]])
                i = j
            self.at(self.horizon_us(), self._finish)
            limit = self.run()
            if getattr(self, 'harness_failure', None):
                raise HarnessError(self.harness_failure)
            if hasattr(self.face, 'recheck_tx'):
                self.face.recheck_tx()
            if getattr(getattr(self, 'peer', None), 'writer', None) is not None and hasattr(self.peer.writer, 'recheck_tx'):
                self.peer.writer.recheck_tx()
            self._post_run(limit)
            from engines import pipeline_model
            pipeline_model.judge(self)
            return self.result(limit, keep_events)
        finally:
            self.close()

    def _tx_mutated(self, was, now):
        # (reported for the property under check when that property speaks of what is transmitted)
        prop = self.scenario['property']
        if prop in ('C04', 'C10'):
            self.violate(prop, 'tx-buffer-reused', self.fe, 'send',
                         f'a buffer handed to face.send() ({len(was)} bytes: {was[:24].hex()}...) was overwritten afterwards '
                         f'(now {now[:24].hex()}...): a transport that queues what it is given sends the later content')

    def _run_ops(self, batch):
        for fn, op in batch:
            try:
                fn(op)
            except Exception as e:      # a failing scripted op is the harness's fault, never a violation
                self.harness_failure = f'op {op.get("op")} at {op.get("at")}: {type(e).__name__}: {e}'
                self.loop.stop()
                return

    def _start(self):
        self.main_task = self.spawn(self.app.main_loop())
        if self.fe == 'v1' and self.scenario.get('app_int_validator') is not None:
            def install():
                self.app.int_validator = self.make_validator(self.scenario['app_int_validator'], ('appdefault',))
                self.log('appval-set')
            if self.scenario.get('app_int_validator_at') is not None:
                # the application tightens its default Interest validator while routes are already installed
                self.after(self.scenario['app_int_validator_at'], install)
                self.stats['fault.default_validator_replaced_later'] += 1
            else:
                install()

    def _finish(self):
        self.log('final', pit=self.pit_len(), running=bool(self.face.running))
        if self.face.running:
            self.app.shutdown()

    def _post_run(self, limit):
        if limit:
            return
        for t in self.loop.unretrieved_task_errors():
            if t in self.harness_tasks and t is not getattr(self, 'main_task', None):
                continue
            e = t.exception()
            if any(e is r for r in self.reported_excs):
                continue
            self.log('task-died', exc=exc_brief(e), where=innermost_ndn_frame(e))
            self.violate('C06', 'task-died', self.fe, innermost_ndn_frame(e),
                         f'a background task ended with unhandled {exc_brief(e)}')
        for rep in self.loop.exc_reports:
            e = rep['exc']
            where = innermost_ndn_frame(e) if e is not None else 'loop'
            self.log('loop-exc', message=rep['message'], exc=rep['exc_type'], where=where)
            self.violate('C06', 'loop-exc', self.fe, where,
                         f'event loop exception handler: {rep["message"]} {rep["exc_type"]}')
        hung = [iid for iid, t in self.callers.items() if not t.done()]
        for iid in hung:
            self.log('hung', id=iid)


def execute(scenario, keep_events=False, variant='asis'):
    w = PipeWorld(scenario, variant)
    return w.execute(keep_events)


def _observables(events, fe):
    """What an application can observe, for the bare-vs-wrapped comparison (C10)."""
    obs = []
    for e in events:
        k = e['k']
        if k == 'done':
            obs.append(('done', e['id'], e['out'], e.get('name'), e.get('content'), e.get('reason'),
                        e.get('result'), e.get('exc')))
        elif k == 'hcall':
            obs.append(('hcall', e['hid'], e['name'], e['nonce'], e['app_param']))
        elif k == 'reply':
            inner = []
            for w in e['sent']:
                try:
                    lp = tlvref.parse_lp(w)
                    inner.append(lp.fragment)
                except tlvref.TlvError:
                    inner.append(bytes(w))
            obs.append(('reply', e['hid'], e['nonce'], e['ri'], e['ret'], inner))
        elif k in ('rx-raised', 'task-died', 'loop-exc'):
            obs.append((k, e.get('where')))
        elif k == 'final':
            obs.append(('final', e['pit']))
    return obs


def execute_differential(scenario, keep_events=False):
    """C10: the same script with every transparent envelope kept, and with it stripped."""
    from simkit.core import canon
    wa = PipeWorld(scenario, 'asis')
    ra = wa.execute(True)
    wb = PipeWorld(scenario, 'bare')
    rb = wb.execute(True)
    oa = _observables(ra.events, wa.fe)
    ob = _observables(rb.events, wb.fe)
    if not ra.limit and not rb.limit and canon(oa) != canon(ob):
        diff = None
        for i, (x, y) in enumerate(zip(oa, ob)):
            if canon(x) != canon(y):
                diff = (i, x, y)
                break
        if diff is None:
            diff = (min(len(oa), len(ob)), oa[len(ob):][:1], ob[len(oa):][:1])
        kind = diff[1][0] if diff[1] and isinstance(diff[1], tuple) else (diff[2][0] if diff[2] and isinstance(diff[2], tuple) else 'length')
        v = {'property': 'C10', 'rule': 'not-transparent', 'component': wa.fe, 'where': str(kind),
             'detail': f'wrapped and bare executions diverge at observable #{diff[0]}: wrapped={diff[1]!r} bare={diff[2]!r}'[:600],
             't': 0}
        v['signature'] = f'C10:not-transparent:{wa.fe}:{kind}'
        ra.violations.append(v)
    seen = {v['signature'] for v in ra.violations}
    for v in rb.violations:
        if v['signature'] not in seen:
            ra.violations.append(v)
    ra.stats.update(rb.stats)
    ra.digest = hashlib.sha256((ra.digest + rb.digest).encode()).hexdigest()
    ra.limit = ra.limit or rb.limit
    ents = sum(1 for o in scenario['ops'] if o['op'] in ('express', 'attach'))
    wrapped = sum(1 for o in scenario['ops'] if o['op'] == 'rx' and isinstance(o['pkt'], dict))
    ra.nontrivial = ents >= 1 and wrapped >= 1
    if not keep_events:
        ra.events = None
    return ra
