"""Trust-chain engine (C14): lvs_validator / CascadeChecker instances on a v1 NDNApp whose peer serves
certificates by name under per-name fault policies; an independent chain walker is the oracle."""
import asyncio
import copy
import datetime as _dt
import functools
import hashlib

from simkit import tlvref
from simkit.core import World, HarnessError, innermost_ndn_frame, exc_brief
from simkit.net import DirectFace
from engines.sigs import DssShim, pool
from engines.keychain import verify_sig, fake_datetime_class
from engines.pipeline import _StubKeychain

import ndn.encoding as enc
from ndn.encoding import Name
from ndn import security as sec

SCHEMAS = {
    1: '''
#KEY: "KEY"/_/_/_
#site: "site"
#root: #site/#KEY
#article: #site/"article"/user/title <= #root
''',
    2: '''
#KEY: "KEY"/_/_/_
#site: "site"
#root: #site/#KEY
#author: #site/"author"/user/#KEY <= #root
#article: #site/"article"/user/title <= #author
''',
    3: '''
#KEY: "KEY"/_/_/_
#site: "site"
#root: #site/#KEY
#admin: #site/"admin"/adm/#KEY <= #root
#author: #site/"author"/user/#KEY <= #admin
#article: #site/"article"/user/title <= #author
''',
    4: '''
#KEY: "KEY"/_/_/_
#site: "site"
#root: #site/#KEY
#oper: #site/"oper"/op/#KEY <= #root
#admin: #site/"admin"/adm/#KEY <= #oper
#author: #site/"author"/user/#KEY <= #admin
#article: #site/"article"/user/title <= #author
''',
}
SCHEMAS['2b'] = '''
#KEY: "KEY"/_/_/_
#site: "site"
#root: #site/#KEY
#other: "othersite"/#KEY
#author: #site/"author"/user/#KEY <= #root | #other
#article: #site/"article"/user/title <= #author
'''
# component constraints on the KEY rule for a pattern the packet name binds: only alice's key may sign articles
# (bob's certificate itself is fine - it matches the unconstrained #anyauthor)
SCHEMAS['2c'] = '''
#KEY: "KEY"/_/_/_
#site: "site"
#root: #site/#KEY
#author: #site/"author"/user/#KEY & {user: "alice"} <= #root
#anyauthor: #site/"author"/user/#KEY <= #root
#article: #site/"article"/user/title <= #author
'''
SCHEMAS['3c'] = '''
#KEY: "KEY"/_/_/_
#site: "site"
#root: #site/#KEY
#admin: #site/"admin"/adm/#KEY <= #root
#author: #site/"author"/user/#KEY & {user: "bob" | "carol"} <= #admin
#anyauthor: #site/"author"/user/#KEY <= #admin
#article: #site/"article"/user/title <= #author
'''
# the LAST component of an article is constrained by type (a version): /site/article/u/t/v=7 yes, /site/article/u/t/seg=7 no
SCHEMAS['2v'] = '''
#KEY: "KEY"/_/_/_
#site: "site"
#root: #site/#KEY
#author: #site/"author"/user/#KEY <= #root
#article: #site/"article"/user/title/_version & {_version: $eq_type("v=0")} <= #author
'''
LEVELS = {1: [], 2: ['author'], 3: ['admin', 'author'], 4: ['oper', 'admin', 'author']}


# ---- independent reading of the (small subset of) Light VerSec the scenario schemas use ---------------------------


@functools.lru_cache(maxsize=16)
def ref_rules(schema_id):
    """-> {rule name: [ (components, constraints, signers) , ...]}; components: ('lit', bytes) | ('any',) | ('pat', name)"""
    raw = {}
    for line in SCHEMAS[schema_id].strip().splitlines():
        head, _, body = line.partition(':')
        body, _, signers = body.partition('<=')
        pattern, _, cons = body.partition('&')
        consd = {}
        cons = cons.strip()
        if cons:
            for item in cons.strip('{} ').split(','):
                var, _, opts = item.partition(':')
                parsed = []
                for o in opts.split('|'):
                    o = o.strip()
                    if o.startswith('$eq_type('):
                        arg = o[len('$eq_type('):-1].strip().strip('"')
                        parsed.append(('eq_type', tlvref.dec_var(tlvref.name_from_uri('/' + arg)[0], 0)[0]))
                    else:
                        parsed.append(('lit', tlvref.tlv(tlvref.T_GENERIC, o.strip('"').encode())))
                consd[var.strip()] = parsed
        raw[head.strip()] = ([c.strip() for c in pattern.strip().split('/')], consd,
                             [x.strip() for x in signers.split('|') if x.strip()])

    def expand(comps):
        out = []
        for c in comps:
            if c.startswith('#'):
                out += expand(raw[c][0])
            elif c.startswith('"'):
                out.append(('lit', tlvref.tlv(tlvref.T_GENERIC, c.strip('"').encode())))
            elif c == '_':
                out.append(('any',))
            else:
                out.append(('pat', c))
        return out
    return {name: (expand(comps), consd, signers) for name, (comps, consd, signers) in raw.items()}


def ref_match(rule, name, ctx):
    comps, consd, _signers = rule
    if len(comps) != len(name):
        return None
    ctx = dict(ctx)
    tmp = {}            # temporary patterns (_name): local to this rule, never shared between packet and key
    for c, v in zip(comps, name):
        v = bytes(v)
        if c[0] == 'lit':
            if v != c[1]:
                return None
        elif c[0] == 'pat' and c[1].startswith('_'):
            tmp[c[1]] = v
        elif c[0] == 'pat':
            if c[1] in ctx:
                if ctx[c[1]] != v:
                    return None
            else:
                ctx[c[1]] = v
    for var, opts in consd.items():
        val = tmp.get(var, ctx.get(var))
        if val is None:
            return None
        if not any((kind == 'lit' and val == arg) or (kind == 'eq_type' and tlvref.dec_var(val, 0)[0] == arg)
                   for kind, arg in opts):
            return None
    return ctx


def ref_signing_check(schema_id, pkt_name, key_name):
    rules = ref_rules(schema_id)
    for rule in rules.values():
        ctx = ref_match(rule, pkt_name, {})
        if ctx is None:
            continue
        for sname in rule[2]:
            if ref_match(rules[sname], key_name, ctx) is not None:
                return True
    return False


@functools.lru_cache(maxsize=16)
def compiled(depth):
    from ndn.app_support.light_versec import compile_lvs
    return compile_lvs(SCHEMAS[depth])


@functools.lru_cache(maxsize=64)
def _derived_ec(n):
    """any number of distinct P-256 keys, derived from their number (nothing random: scenarios must replay)"""
    from Cryptodome.PublicKey import ECC
    d = int.from_bytes(hashlib.sha256(b'verif derived key %d' % n).digest(), 'big') % (2 ** 255) + 1
    k = ECC.construct(curve='P-256', d=d)
    return bytes(k.export_key(format='DER', use_pkcs8=False)), bytes(k.public_key().export_key(format='DER'))


def key_material(spec):
    """spec: ['ec', i] | ['rsa', i] | ['ed', i] | ['ecd', n] -> (private DER, public DER)"""
    if spec[0] == 'ecd':
        return _derived_ec(spec[1])
    p = pool()
    kind, i = spec
    rec = p[kind][i % len(p[kind])]
    return bytes.fromhex(rec['prv']), bytes.fromhex(rec['pub'])


def mk_signer(spec, locator):
    prv, _pub = key_material(spec)
    if spec[0] in ('ec', 'ecd'):
        return sec.Sha256WithEcdsaSigner(locator, prv)
    if spec[0] == 'ed':
        return sec.Ed25519Signer(locator, prv)
    return sec.Sha256WithRsaSigner(locator, prv)


class Pki:
    """The certificate hierarchy of one scenario, built with the real self_sign / derive_cert / make_data."""

    def __init__(self, sc, wall):
        from ndn.app_support.security_v2 import self_sign, derive_cert
        self.sc = sc
        depth = sc['depth']
        self.certs = {}         # name bytes -> wire
        self.names = {}         # label -> cert name (FormalName)
        self.keys = {}          # label -> key spec
        t0 = _dt.datetime.fromtimestamp(wall.now_us() / 1e6, _dt.UTC)

        def anchor(label, kspec, kid):
            kname = Name.from_str(f'/site/KEY/{kid}')
            _prv, pub = key_material(kspec)
            cname, cwire = self_sign(kname, pub, mk_signer(kspec, kname))
            self.certs[bytes(Name.to_bytes(cname))] = bytes(cwire)
            self.names[label] = [bytes(c) for c in cname]
            self.keys[label] = kspec
        anchor('root', sc['keys']['root'], 'r1')
        anchor('root2', sc['keys']['root2'], 'r2')          # a second, unrelated trust anchor of the same shape
        parent = 'root'
        for lvl in LEVELS[depth]:
            members = sc['members'][lvl]
            for m in members:
                label = f'{lvl}:{m}'
                kspec = sc['keys'][label]
                kname = Name.from_str(f'/site/{lvl}/{m}/KEY/k{m}')
                _prv, pub = key_material(kspec)
                pl = parent if ':' not in parent else parent
                cname, cwire = derive_cert(kname, 'sig', pub, mk_signer(self.keys[pl], self.names[pl]), t0, 36000)
                self.certs[bytes(Name.to_bytes(cname))] = bytes(cwire)
                self.names[label] = [bytes(c) for c in cname]
                self.keys[label] = kspec
                if sc.get('self_issued'):
                    # a second certificate of the same key, issued with that key itself and naming the CA-issued one
                    # (a renewed / self-issued certificate): packet <- N <- M <- ... <- anchor is a chain like any other
                    nname = [bytes(c) for c in cname[:-2]] + [bytes(enc.Component.from_str('self')), bytes(cname[-1])]
                    nwire = enc.make_data(nname, enc.MetaInfo(content_type=enc.ContentType.KEY, freshness_period=3600000),
                                          pub, signer=mk_signer(kspec, self.names[label]))
                    self.certs[bytes(Name.to_bytes(nname))] = bytes(nwire)
                    self.names[label + '~self'] = nname
                    self.keys[label + '~self'] = kspec
            parent = f'{lvl}:{members[0]}'
        self.last_level = LEVELS[depth][-1] if LEVELS[depth] else None

    def signer_for_author(self, user):
        if self.last_level is None:
            return 'root'
        return f'{self.last_level}:{user}'

    def packet(self, spec):
        """{'user':..,'title':..,'signed_by': label|'digest'|'none'|'nolocator', 'name_user': ...}"""
        name = Name.from_str(f'/site/article/{spec.get("name_user", spec["user"])}/{spec["title"]}'
                             + (f'/{spec["last"]}' if spec.get('last') else ''))
        if spec.get('empty_name'):
            name = []               # a Data packet named "/" (it answers an Interest for the root prefix)
        sb = spec.get('signed_by', self.signer_for_author(spec['user']))
        if sb == 'none':
            signer = None
        elif sb == 'digest':
            signer = sec.DigestSha256Signer()
        else:
            locator = self.names[sb + '~self'] if spec.get('self_issued') and (sb + '~self') in self.names else self.names[sb]
            if spec.get('alt_locator'):
                # another certificate name of the same key (other issuer id) that nobody serves
                locator = list(self.names[sb][:-2]) + [bytes(enc.Component.from_str('alt')), self.names[sb][-1]]
            if spec.get('odd_locator'):
                # a key locator nobody can fetch a certificate under: a name holding a parameters-digest component, or a
                # component of type 0 (the sender of a packet chooses its key locator freely)
                odd = tlvref.tlv(2, bytes(32)) if spec['odd_locator'] == 'params-digest' else tlvref.tlv(0, b'x')
                locator = list(locator[:-1]) + [odd, locator[-1]] if spec.get('odd_at') == 'mid' else list(locator) + [odd]
            signer = mk_signer(self.keys[sb], locator)
            if spec.get('type_mismatch'):
                # signed by somebody else's key of ANOTHER type, naming the genuine (retrievable, valid) certificate: the
                # certificate's key bits are not a key of the type the signature claims
                signer = mk_signer(['rsa', 5] if self.keys[sb][0] != 'rsa' else ['ec', 9], locator)
            if spec.get('hmac_forgery'):
                # anybody who has seen the certificate can do this: HMAC keyed with the certificate's PUBLIC key bits,
                # naming that (genuine, retrievable) certificate as key locator
                _prv, pub = key_material(self.keys[sb])
                signer = sec.HmacSha256Signer(locator, pub)
        return bytes(enc.make_data(name, enc.MetaInfo(freshness_period=1000), b'article-' + spec['title'].encode(), signer=signer))


def flip(wire, where):
    """forge: flip one byte inside Content / SignatureInfo / SignatureValue / Name"""
    p = tlvref.parse_data(wire)
    typ = {'content': tlvref.T_CONTENT, 'siginfo': tlvref.T_SIG_INFO, 'sigvalue': tlvref.T_SIG_VALUE, 'name': tlvref.T_NAME}[where]
    el = tlvref.find(p.els, typ)
    b = bytearray(wire)
    b[el[3] - 1] ^= 0x01
    return bytes(b)


class ChainWorld(World):
    def __init__(self, scenario):
        super().__init__(scenario, max_steps=200000, max_time=2000.0)
        self.set_ndn_log_level(False)
        import ndn.security.signer.sha256_ecdsa_signer as ecs
        import ndn.app_support.security_v2 as sv2
        self.seams.set(ecs, 'DSS', DssShim(self.srand))
        self.seams.set(sv2, 'datetime', fake_datetime_class(self.wall))
        self.face = DirectFace(self._on_tx)
        from ndn import app as appv1
        self.app = appv1.NDNApp(face=self.face, keychain=_StubKeychain())
        self.pki = Pki(scenario, self.wall)
        self.store = dict(self.pki.certs)       # what the network serves now
        self.policy = {}                        # name bytes -> 'ok' | 'lost' | 'nack' | ['lost', n]
        self.fetches = {}
        self.instances = {}
        self.inflight_validations = 0
        self.running_vids = set()
        self.overlap_marks = []
        self.harness_tasks = set()
        from ndn.app_support.light_versec import Checker, DEFAULT_USER_FNS
        self.schema_id = scenario.get('schema') or ('2b' if scenario.get('two_roots') else scenario['depth'])
        self.checker = Checker(compiled(self.schema_id), DEFAULT_USER_FNS)
        self.apply_deviation_to_store()
        self.reset_default_storages()

    @staticmethod
    def reset_default_storages():
        """A default-argument storage object (if the library has one) outlives every run of this process: empty it,
        otherwise one scenario's certificates would leak into the next one's and break replay."""
        from ndn.app_support.light_versec import validator as lv
        from ndn.security.validator import cascade_validator as cv
        for fn in (lv.lvs_validator, cv.CascadeChecker.__init__):
            for d in (fn.__defaults__ or ()):
                if hasattr(d, '_cache') and isinstance(d._cache, dict):
                    d._cache.clear()

    # ---- deviations that live in the store ---------------------------------------------------
    def label_name(self, label):
        return bytes(Name.to_bytes(self.pki.names[label]))

    def apply_deviation_to_store(self):
        if self.scenario.get('crowd_loss'):
            # every author's certificate is lost once (a congested link) and can be fetched from then on
            for label in list(self.pki.names):
                if label.startswith('author:') and '~' not in label:
                    self.policy[self.label_name(label)] = ['lost', 1]
            self.stats['fault.first_fetch_of_every_certificate_lost'] += 1
        dev = self.scenario.get('deviation') or {}
        k = dev.get('kind')
        if k == 'forged-cert':
            n = self.label_name(dev['label'])
            self.store[n] = flip(self.store[n], dev['where'])
        elif k == 'substituted-key':
            n = self.label_name(dev['label'])
            self.store[n] = self.substitute(dev['label'], dev.get('by', ['ec', 9]))
        elif k in ('missing-cert', 'nack-cert'):
            self.policy[self.label_name(dev['label'])] = 'lost' if k == 'missing-cert' else 'nack'
        elif k == 'transient-loss':
            self.policy[self.label_name(dev['label'])] = [dev.get('how', 'lost'), dev.get('n', 1)]
        elif k == 'wrong-issuer-cert':
            # the certificate of `label` is (validly) signed by a key the schema does not allow for it
            self.store[self.label_name(dev['label'])] = self.reissue(dev['label'], signer_label=dev['by_label'])
        elif k == 'loop':
            # the certificate of `label` now claims to be signed by a certificate that is signed by `label`
            a, b = dev['label'], dev['other']
            na, nb_ = self.label_name(a), self.label_name(b)
            self.store[na] = self.reissue(a, signer_label=b)
            self.store[nb_] = self.reissue(b, signer_label=a)
            self.policy[na] = ['ok', 3]
            self.policy[nb_] = ['ok', 3]

    def substitute(self, label, attacker_spec):
        """a certificate of the same name carrying the attacker's key, signed by the attacker, naming the
        legitimate issuer as key locator"""
        p = tlvref.parse_data(self.pki.certs[self.label_name(label)])
        _prv, pub = key_material(attacker_spec)
        name = [bytes(c) for c in p.name]
        legit_locator = self.locator_of(self.pki.certs[self.label_name(label)])
        return self.raw_cert(name, pub, mk_signer(attacker_spec, legit_locator))

    def reissue(self, label, signer_label):
        p = tlvref.parse_data(self.pki.certs[self.label_name(label)])
        name = [bytes(c) for c in p.name]
        _prv, pub = key_material(self.pki.keys[label])
        return self.raw_cert(name, pub, mk_signer(self.pki.keys[signer_label], self.pki.names[signer_label]))

    @staticmethod
    def raw_cert(name, pub, signer):
        return bytes(enc.make_data(name, enc.MetaInfo(content_type=enc.ContentType.KEY, freshness_period=3600000), pub, signer=signer))

    @staticmethod
    def locator_of(wire):
        p = tlvref.parse_data(wire)
        if p.sig_info is None:
            return None
        si = tlvref.elements(p.sig_info)
        kl = tlvref.find(si, tlvref.T_KEY_LOCATOR)
        if kl is None:
            return None
        sub = tlvref.elements(p.sig_info, kl[2], kl[3])
        n = tlvref.find(sub, tlvref.T_NAME)
        if n is None:
            return None
        return tlvref.name_components(p.sig_info, n[2], n[3])

    # ---- the certificate-serving network -----------------------------------------------------
    def _on_tx(self, wire):
        try:
            p = tlvref.parse_interest(wire)
        except tlvref.TlvError:
            return
        n = b''.join(p.name)
        key = tlvref.name_tlv(p.name)
        idx = self.fetches.get(key, 0)
        self.fetches[key] = idx + 1
        pol = self.policy.get(key, 'ok')
        self.log('fetch', name=key, idx=idx, policy=pol)
        self.tok('f')
        del n
        if isinstance(pol, list):
            kind, cnt = pol
            if kind in ('lost', 'nack'):
                pol = kind if idx < cnt else 'ok'
            else:
                pol = 'ok' if idx < cnt else 'lost'
        if pol == 'lost':
            self.stats['fault.cert_lost'] += 1
            return
        if pol == 'nack':
            self.stats['fault.cert_nack'] += 1
            self.after(100, self.face.deliver, tlvref.make_nack(wire, 150))
            return
        cert = self.store.get(key)
        if cert is None:
            self.stats['fault.cert_absent'] += 1
            return
        if idx >= 12:
            # a certificate loop makes a schema-less cascade checker fetch for ever; the network stops answering
            # (the statement only demands that such a chain is not accepted)
            self.stats['probe.fetch_cap_reached'] += 1
            return
        self.after(self.scenario.get('fetch_delay_us', 100), self.face.deliver, cert)

    # ---- ops -----------------------------------------------------------------------------------
    def op_instance(self, op):
        from ndn.app_support.light_versec import lvs_validator
        from ndn.security.validator.cascade_validator import CascadeChecker, MemoryKeyStorage, EmptyKeyStorage
        anchor_label = op.get('anchor', 'root')
        anchor = self.pki.certs[self.label_name(anchor_label)]
        if op.get('anchor_forged'):
            anchor = flip(anchor, op['anchor_forged'])
        if op.get('anchor_is'):
            anchor = self.pki.certs[self.label_name(op['anchor_is'])]      # a non-anchor certificate as "anchor"
        kw = {}
        if op.get('storage') == 'own':
            kw['storage'] = MemoryKeyStorage()
        elif op.get('storage') == 'empty':
            kw['storage'] = EmptyKeyStorage()
        buf = None
        if op.get('anchor_buffer'):
            # the anchor is read into a buffer that the caller re-uses for something else afterwards
            buf = bytearray(anchor)
            anchor = buf if op['anchor_buffer'] == 'bytearray' else memoryview(buf)
        try:
            if op.get('bare'):
                v = CascadeChecker(self.app, anchor, **kw)
            else:
                v = lvs_validator(self.checker, self.app, anchor, **kw)
            if buf is not None:
                other = self.pki.certs[self.label_name('root2' if anchor_label == 'root' else 'root')]
                buf[:] = (other + bytes(len(buf)))[:len(buf)]
            self.instances[op['iid']] = (v, op)
            self.log('instance', iid=op['iid'], ok=True, anchor=anchor_label, bare=bool(op.get('bare')))
        except ValueError as e:
            self.log('instance', iid=op['iid'], ok=False, exc=exc_brief(e), anchor=anchor_label)
        except Exception as e:
            self.log('instance', iid=op['iid'], ok=False, exc=exc_brief(e), other=True, where=innermost_ndn_frame(e))
        self.tok('I')

    def op_store(self, op):
        """the certificate store changes between validator instances"""
        k = op['change']
        n = self.label_name(op['label'])
        if k == 'withdraw':
            self.store.pop(n, None)
        elif k == 'attacker':
            self.store[n] = self.substitute(op['label'], op.get('by', ['ec', 9]))
        elif k == 'restore':
            self.store[n] = self.pki.certs[n]
        self.stats['fault.store_' + k] += 1
        self.log('store', change=k, label=op['label'])
        self.tok('S')

    def op_facedown(self, op):
        self.log('facedown')
        self.stats['fault.face_down'] += 1
        if self.face.running:
            self.app.shutdown()

    def op_validate(self, op):
        if self.scenario.get('serial'):
            # one long-lived consumer task validates the packets one after another (state kept per task - context
            # variables - accumulates there; a task per packet would hide it)
            if getattr(self, '_serial_q', None) is None:
                self._serial_q = asyncio.Queue()

                async def runner():
                    while True:
                        nxt = await self._serial_q.get()
                        await self._validate(nxt)
                self.harness_tasks.add(self.loop.create_task(runner()))
            self._serial_q.put_nowait(op)
            return
        t = self.loop.create_task(self._validate(op))
        self.harness_tasks.add(t)
        if op.get('cancel_after_us') is not None:
            # this caller gives up (wait_for running out, task cancelled) while its chain is being fetched
            self.after(op['cancel_after_us'], self._cancel_validation, t, op['vid'])

    def _cancel_validation(self, task, vid):
        if not task.done():
            self.stats['fault.caller_cancelled'] += 1
            self.log('caller-cancel', vid=vid)
            task.cancel()

    async def _validate(self, op):
        inst = self.instances.get(op['iid'])
        wire = self.pki.packet(op['packet'])
        dev = op.get('forge')
        if dev:
            wire = flip(wire, dev)
        if inst is None:
            self.log('verdict', vid=op['vid'], iid=op['iid'], out='no-instance', wire=wire)
            return
        v, iop = inst
        name, _mi, _c, sig = enc.parse_data(wire)
        self.tok('V')
        store_snapshot = dict(self.store)
        policy_snapshot = {}
        for key, pol in self.policy.items():
            if isinstance(pol, list) and pol[0] in ('lost', 'nack'):
                # transient fault: the first n fetches fail; what matters is whether the *next* fetch would
                policy_snapshot[key] = pol[0] if self.fetches.get(key, 0) < pol[1] else 'ok'
            else:
                policy_snapshot[key] = copy.deepcopy(pol)
        self.inflight_validations += 1
        overlapped = self.inflight_validations > 1
        self.overlap_marks.append(op['vid']) if overlapped else None
        for other in self.running_vids:
            self.overlap_marks.append(other)
        self.running_vids.add(op['vid'])
        t_start = self.now_us()
        try:
            try:
                ok = await asyncio.wait_for(v(name, sig), timeout=self.scenario.get('validate_timeout_s', 60))
            finally:
                self.inflight_validations -= 1
                self.running_vids.discard(op['vid'])
            self.log('verdict', vid=op['vid'], iid=op['iid'], out=bool(ok), raw=repr(ok), wire=wire,
                     store=store_snapshot, policy=policy_snapshot, t_start=t_start)
        except asyncio.TimeoutError:
            self.log('verdict', vid=op['vid'], iid=op['iid'], out='bounded', wire=wire, store=store_snapshot, policy=policy_snapshot)
        except asyncio.CancelledError:
            self.log('verdict', vid=op['vid'], iid=op['iid'], out='cancelled', wire=wire, store=store_snapshot, policy=policy_snapshot)
            raise
        except BaseException as e:
            if any(x['k'] == 'caller-cancel' and x['vid'] == op['vid'] for x in self.events):
                # this is the validation the harness cancelled itself (the library turns the cancellation into
                # InterestCanceled): nothing to judge
                self.log('verdict', vid=op['vid'], iid=op['iid'], out='cancelled', wire=wire, store=store_snapshot, policy=policy_snapshot)
                return
            self.log('verdict', vid=op['vid'], iid=op['iid'], out='error', exc=exc_brief(e), where=innermost_ndn_frame(e),
                     wire=wire, store=store_snapshot, policy=policy_snapshot)

    def _run_ops(self, batch):
        for fn, op in batch:
            try:
                fn(op)
            except Exception as e:
                self.harness_failure = f'op {op.get("op")}: {type(e).__name__}: {e}'
                self.loop.stop()
                return

    def execute(self, keep_events=False):
        self.harness_failure = None
        try:
            def start():
                self.harness_tasks.add(self.loop.create_task(self.app.main_loop()))
            self.loop.call_soon(start)
            table = {'instance': self.op_instance, 'store': self.op_store, 'validate': self.op_validate,
                     'facedown': self.op_facedown}
            ops = sorted(self.scenario['ops'], key=lambda o: o['at'])
            i = 0
            while i < len(ops):
                j = i
                while j < len(ops) and ops[j]['at'] == ops[i]['at']:
                    j += 1
                self.at(ops[i]['at'], self._run_ops, [(table[o['op']], o) for o in ops[i:j]])
                i = j
            self.at((ops[-1]['at'] if ops else 0) + 100_000_000, lambda: self.app.shutdown() if self.face.running else None)
            limit = self.run()
            if self.harness_failure:
                raise HarnessError(self.harness_failure)
            if not limit:
                self._judge()
            res = self.result(limit, keep_events)
            res.nontrivial = sum(1 for o in ops if o['op'] == 'validate') >= 1 and (
                bool(self.scenario.get('deviation')) or sum(1 for o in ops if o['op'] == 'instance') >= 2)
            return res
        finally:
            self.close()

    # ---- oracle: independent chain walker -------------------------------------------------------
    def walk(self, wire, anchor_wire, store, policy, strict_retrieval, depth=0, schema=True):
        """-> True / False.  strict_retrieval=False: pretend every stored certificate can be fetched (upper bound)."""
        if depth > 8:
            return False
        try:
            p = tlvref.parse_data(wire)
        except tlvref.TlvError:
            return False
        kl = self.locator_of(wire)
        if not kl or p.sig_info is None or p.sig_value is None:
            return False
        name = [bytes(c) for c in p.name]
        if schema and not ref_signing_check(self.schema_id, name, [bytes(c) for c in kl]):
            return False                    # independent reading of the schema, not the library's Checker
        si = tlvref.elements(p.sig_info)
        st = tlvref.find(si, tlvref.T_SIG_TYPE)
        styp = int.from_bytes(p.sig_info[st[2]:st[3]], 'big') if st else None
        if styp not in (1, 3, 5):
            return False
        a = tlvref.parse_data(anchor_wire)
        if [bytes(c) for c in kl] == [bytes(c) for c in a.name]:
            return verify_sig(a.content, styp, p.signed_portion, p.sig_value)
        key = tlvref.name_tlv(kl)
        pol = policy.get(key, 'ok')
        if strict_retrieval and (pol in ('lost', 'nack') or (isinstance(pol, list) and pol[0] == 'ok')):
            return False
        cert = store.get(key)
        if cert is None:
            return False
        if not self.walk(cert, anchor_wire, store, policy, strict_retrieval, depth + 1, schema):
            return False
        c = tlvref.parse_data(cert)
        return verify_sig(c.content, styp, p.signed_portion, p.sig_value)

    def _judge(self):
        ev = self.events
        insts = {e['iid']: e for e in ev if e['k'] == 'instance'}
        for op in self.scenario['ops']:
            if op['op'] != 'instance':
                continue
            e = insts.get(op['iid'])
            if e is None:
                continue
            bad_anchor = bool(op.get('anchor_forged')) or bool(op.get('anchor_is')) or \
                (bool(self.scenario.get('two_roots')) and not op.get('bare'))
            if op.get('anchor_forged') and op['anchor_forged'] not in ('content', 'siginfo', 'sigvalue', 'name'):
                bad_anchor = False
            if e.get('other'):
                self.violate('C14', 'constructor-raised', 'lvs' if not op.get('bare') else 'cascade', e.get('where', '?'),
                             f'building validator {op["iid"]} raised {e.get("exc")} (only ValueError is documented)')
            elif bad_anchor and e['ok']:
                why = 'is not properly self-signed' if op.get('anchor_forged') else \
                    ('does not match the schema\'s roots of trust' + (' (it matches only one of two)' if self.scenario.get('two_roots') else ''))
                self.violate('C14', 'bad-anchor-accepted', 'lvs' if not op.get('bare') else 'cascade',
                             'forged' if op.get('anchor_forged') else 'mismatch',
                             f'validator {op["iid"]} was built although its trust anchor {why}')
            elif not bad_anchor and not e['ok']:
                self.violate('C14', 'good-anchor-refused', 'lvs' if not op.get('bare') else 'cascade',
                             'constructor' + ('-ed25519' if self.scenario['keys'][op.get('anchor', 'root')][0] == 'ed' else ''),
                             f'validator {op["iid"]} refused a proper trust anchor: {e.get("exc")}')
        has_transient = any(isinstance(p, list) and p[0] in ('lost', 'nack') for p in self.policy.values())
        facedown_t = next((x['t'] for x in ev if x['k'] == 'facedown'), None)
        overlapping = set(self.overlap_marks)
        for e in ev:
            if e['k'] != 'verdict':
                continue
            iop = None
            for op in self.scenario['ops']:
                if op['op'] == 'instance' and op['iid'] == e['iid']:
                    iop = op
            if iop is None or e['out'] in ('no-instance', 'cancelled'):
                continue
            comp = 'cascade' if iop.get('bare') else 'lvs'
            down = facedown_t is not None and e['t'] >= facedown_t
            if e['out'] == 'error' and down and str(e.get('exc', '')).startswith(('NetworkError', 'InterestCanceled')):
                self.ambiguous += 1      # the connection went away under the validation: raising is not accepting
                continue
            if e['out'] == 'error':
                self.violate('C14', 'validator-raised', comp, e.get('where', '?'), f'validation {e["vid"]} raised {e.get("exc")}')
                continue
            # (a bare CascadeChecker is the same validator without a schema: every link is allowed, the rest of the statement applies)
            schema = not iop.get('bare')
            if not schema and (iop.get('anchor_is') or iop.get('anchor_forged')):
                continue
            anchor_wire = self.pki.certs[self.label_name(iop.get('anchor', 'root'))]
            upper = self.walk(e['wire'], anchor_wire, e['store'], e['policy'], strict_retrieval=False, schema=schema)
            exact = self.walk(e['wire'], anchor_wire, e['store'], e['policy'], strict_retrieval=True, schema=schema)
            got = e['out'] is True
            desc = f'validation {e["vid"]} by instance {e["iid"]} (anchor {iop.get("anchor", "root")}, deviation ' \
                   f'{self.scenario.get("deviation")}, forged packet field {[o.get("forge") for o in self.scenario["ops"] if o.get("vid") == e["vid"]]})'
            transient = has_transient and e['vid'] in overlapping
            if got and not upper:
                self.violate('C14', 'accepted-without-chain', comp, self._why(e),
                             f'{desc}: accepted, but no valid chain to the anchor exists in what the network serves')
            elif got and not exact and not transient:
                self.violate('C14', 'accepted-unretrievable', comp, self._why(e),
                             f'{desc}: accepted although a certificate on the chain cannot be retrieved')
            transient = has_transient and e['vid'] in overlapping      # fetch counters are only predictable for validations run alone
            if got and not upper:
                pass
            elif not got and exact and not transient and e['out'] is False and not down:
                self.violate('C14', 'rejected-valid-chain', comp, self._why(e),
                             f'{desc}: rejected although a valid, retrievable chain to the anchor exists')
            elif e['out'] == 'bounded' and exact and not down:
                self.violate('C14', 'validation-hang', comp, self._why(e), f'{desc}: did not finish within the bound')
            if transient:
                self.ambiguous += 1
        for t in self.loop.unretrieved_task_errors():
            if t in self.harness_tasks:
                continue
            exc = t.exception()
            self.violate('C14', 'task-died', 'app', innermost_ndn_frame(exc), f'background task ended with {exc_brief(exc)}')

    def _why(self, e):
        dev = self.scenario.get('deviation') or {}
        n_inst = sum(1 for o in self.scenario['ops'] if o['op'] == 'instance')
        if str(self.scenario.get('schema', '')).endswith('c'):
            return 'constrained-schema' + ('+history' if n_inst > 1 else '')
        if any(k[0] == 'ed' for k in self.scenario['keys'].values()) and not dev.get('kind'):
            return 'ed25519-chain' + ('+history' if n_inst > 1 else '')
        return (dev.get('kind') or 'no-deviation') + ('+history' if n_inst > 1 else '')


# ---- generation -----------------------------------------------------------------------------------


def generate(rng, seed, tier='quick'):
    depth = rng.choice([1, 2, 2, 3, 3, 4])
    users = ['alice', 'bob']
    crowd = rng.random() < 0.04
    if crowd:
        # many authors, each with a key of its own: one validator ends up knowing some twenty certificates
        depth = rng.choice([2, 3])
        users = users + [f'u{i}' for i in range(rng.choice([15, 18, 30]))]
    members = {}
    free = {'ec': list(range(0, 9)), 'rsa': list(range(0, 5)), 'ed': [0, 1]}     # ec#9, rsa#5 and ed#2 belong to the attacker      # distinct key material for every label
    rng.shuffle(free['ec'])
    rng.shuffle(free['rsa'])
    rng.shuffle(free['ed'])
    ed_prob = rng.choice([0, 0, 0.15, 0.5])

    def fresh(kind):
        if rng.random() < ed_prob and free['ed']:
            kind = 'ed'
        return [kind, free[kind].pop()]
    keys = {'root': fresh(rng.choice(['ec', 'ec', 'rsa'])), 'root2': [ 'ec', free['ec'].pop()]}
    for lvl in LEVELS[depth]:
        members[lvl] = users if lvl == 'author' else [rng.choice(['m1', 'm2'])]
        for m in members[lvl]:
            keys[f'{lvl}:{m}'] = ['ecd', int(m[1:])] if (lvl == 'author' and m[0] == 'u' and m[1:].isdigit()) else \
                fresh(rng.choice(['ec', 'ec', 'ec', 'rsa']))
    labels = [k for k in keys if ':' in k]
    deviation = None
    x = rng.random()
    chain_labels = [f'{lvl}:{members[lvl][0]}' for lvl in LEVELS[depth]]
    if x < 0.55 and chain_labels:
        kind = rng.choice(['forged-cert', 'substituted-key', 'missing-cert', 'nack-cert', 'transient-loss', 'loop', 'wrong-issuer-cert',
                           'wrong-issuer-cert'])
        label = rng.choice(chain_labels)
        deviation = {'kind': kind, 'label': label}
        if kind == 'wrong-issuer-cert':
            idx = chain_labels.index(label)
            parent = 'root' if idx == 0 else chain_labels[idx - 1]
            cands = [lb for lb in ['root'] + labels if lb not in (label, parent)]
            if cands:
                deviation['by_label'] = rng.choice(cands)
            else:
                deviation = {'kind': 'missing-cert', 'label': label}
        if kind == 'forged-cert':
            deviation['where'] = rng.choice(['content', 'siginfo', 'sigvalue'])
        if kind == 'substituted-key':
            deviation['by'] = rng.choice([['ec', 9], ['ec', 9], ['rsa', 5]])
        if kind == 'transient-loss':
            deviation['n'] = rng.randint(1, 2)
            deviation['how'] = rng.choice(['lost', 'nack', 'nack'])
        if kind == 'loop':
            others = [lb for lb in chain_labels if lb != label]
            if not others:
                deviation = None
            else:
                deviation['other'] = rng.choice(others)
    ops = []
    t = 1000
    iid = 0
    vid = 0
    n_inst = rng.choice([1, 1, 2, 2, 3])
    for k in range(n_inst):
        iid += 1
        op = {'at': t, 'op': 'instance', 'iid': iid, 'anchor': 'root'}
        y = rng.random()
        if y < 0.08:
            op['anchor_forged'] = rng.choice(['content', 'sigvalue', 'siginfo'])
        elif y < 0.14 and labels:
            op['anchor_is'] = rng.choice(labels)
        elif y < 0.3 and k > 0:
            op['anchor'] = 'root2'
        if rng.random() < 0.15:
            op['storage'] = rng.choice(['own', 'empty'])
        if rng.random() < 0.12 and y >= 0.14:
            op['anchor_buffer'] = rng.choice(['bytearray', 'memoryview'])
        if rng.random() < 0.06:
            op['bare'] = True
        ops.append(op)
        t += rng.choice([0, 1000])
        prev_user = None
        for _ in range(rng.randint(1, 3)):
            vid += 1
            user = rng.choice(users)
            pkt = {'user': user, 'title': f't{vid}'}
            z = rng.random()
            if z < 0.08:
                pkt['signed_by'] = rng.choice(['none', 'digest'])
            elif z < 0.2 and depth >= 2:
                # wrong issuer shape / wrong constraint value
                choices = ['root'] + [lb for lb in labels if lb != f'{LEVELS[depth][-1]}:{user}']
                pkt['signed_by'] = rng.choice(choices)
            elif z < 0.26:
                pkt['name_user'] = 'mallory'
            elif z < 0.31:
                pkt['hmac_forgery'] = True
            elif z < 0.33:
                pkt['empty_name'] = True
            elif z < 0.35:
                pkt['type_mismatch'] = True
            elif z < 0.38:
                pkt['odd_locator'] = rng.choice(['params-digest', 'type0'])
                pkt['odd_at'] = rng.choice(['end', 'mid'])
                if rng.random() < 0.6 and 'anchor_is' not in op and 'anchor_forged' not in op:
                    op['bare'] = True
            if (_ > 0 or depth == 1) and 'signed_by' not in pkt and rng.random() < 0.15:
                pkt['alt_locator'] = True
                pkt['user'] = prev_user
            prev_user = pkt['user']
            v = {'at': t, 'op': 'validate', 'vid': vid, 'iid': iid, 'packet': pkt}
            if rng.random() < 0.1:
                v['forge'] = rng.choice(['content', 'sigvalue', 'siginfo', 'name'])
            ops.append(v)
            t += rng.choice([0, 1, 1000, 5_000_000]) if not (deviation and deviation.get('kind') == 'transient-loss') \
                else rng.choice([1000, 20_000_000, 20_000_000])
        t += 10_000_000
        if k + 1 < n_inst and chain_labels and rng.random() < 0.6:
            ops.append({'at': t, 'op': 'store', 'change': rng.choice(['withdraw', 'attacker', 'attacker']),
                        'label': rng.choice(chain_labels), 'by': rng.choice([['ec', 9], ['ec', 9], ['rsa', 5]])})
            t += 1000
    if crowd:
        deviation = None
        inst = dict(next(o for o in ops if o['op'] == 'instance'), at=1000)
        for k_ in ('anchor_forged', 'anchor_is', 'storage'):
            inst.pop(k_, None)
        inst['anchor'] = 'root'
        ops = [inst]
        t, vid = 2000, 0
        order = list(users)
        rng.shuffle(order)
        for u in order + order[:4]:
            vid += 1
            ops.append({'at': t, 'op': 'validate', 'vid': vid, 'iid': inst['iid'], 'packet': {'user': u, 'title': f't{vid}'}})
            t += 1_000_000
    two_roots = depth == 2 and rng.random() < 0.2 and not crowd
    extra = {}
    if crowd:
        if rng.random() < 0.6:
            extra['serial'] = True
        if rng.random() < 0.5:
            extra['crowd_loss'] = True
            for o in ops:
                if o['op'] == 'validate':
                    o['at'] = o['at'] * 6       # a lost fetch takes a lifetime
    fetch_delay = rng.choice([0, 100, 5000])
    vals = [o for o in ops if o['op'] == 'validate']
    if vals and depth >= 2 and rng.random() < 0.12 and not deviation:
        # two validations that need the same certificates start together; the first caller gives up while the chain is
        # being fetched - the second one must not notice
        v = rng.choice(vals)
        twin = copy.deepcopy(v)
        twin['vid'] = max(o['vid'] for o in vals) + 1
        twin['packet'] = dict(v['packet'], title=v['packet']['title'] + 'b')
        twin.pop('forge', None)
        v['cancel_after_us'] = rng.choice([1, 2500, 4000, 7500])
        ops.insert(ops.index(v) + 1, twin)
        fetch_delay = 5000
    elif vals and depth >= 2 and rng.random() < 0.1:
        # the connection goes away while a (often forged) packet's chain is being fetched
        v = rng.choice(vals)
        if rng.random() < 0.6:
            v['forge'] = rng.choice(['content', 'sigvalue'])
        fetch_delay = 5000
        ops.append({'at': v['at'] + rng.choice([1, 2500, 4999, 7500]), 'op': 'facedown'})
    if rng.random() < 0.1 and depth >= 1:
        # every key below the anchor also has a certificate issued with that key itself; some packets name it
        extra['self_issued'] = True
        for o in ops:
            if o['op'] == 'validate' and 'signed_by' not in o['packet'] and not o['packet'].get('alt_locator') and rng.random() < 0.6:
                o['packet']['self_issued'] = True
        for o in ops:
            if o['op'] == 'instance' and rng.random() < 0.5 and not o.get('anchor_is') and not o.get('anchor_forged'):
                o['bare'] = True
    if not two_roots and depth in (2, 3) and rng.random() < 0.25:
        extra['schema'] = f'{depth}c'        # a component constraint on the signing key's rule
    elif not two_roots and depth == 2 and rng.random() < 0.2:
        extra['schema'] = '2v'              # the article's last component is constrained by type
        for o in ops:
            if o['op'] == 'validate':
                o['packet']['title'] = 'same'       # the same object, told apart by its last component only
                o['packet']['last'] = rng.choice(['v=7', 'v=7', 'seg=7', 'seg=7', 'v=1', None])
    return {'engine': 'trustchain', 'property': 'C14', 'seed': seed, 'two_roots': two_roots, **extra,
            'config': {'turn_cost_us': rng.choice([0, 0, 1]), 'wall_gran_us': 1000},
            'depth': depth, 'members': members, 'keys': keys, 'deviation': deviation, 'ops': ops,
            'fetch_delay_us': fetch_delay}


def execute(sc, keep_events=False):
    w = ChainWorld(sc)
    return w.execute(keep_events)


def simplifications(sc):
    if sc.get('deviation'):
        c = copy.deepcopy(sc)
        c['deviation'] = None
        yield c
    for i, op in enumerate(sc['ops']):
        if op['op'] == 'validate' and op['packet'].get('alt_locator'):
            c = copy.deepcopy(sc)
            del c['ops'][i]['packet']['alt_locator']
            yield c
        for k in ('forge', 'storage', 'anchor_forged', 'anchor_is', 'bare'):
            if k in op:
                c = copy.deepcopy(sc)
                del c['ops'][i][k]
                yield c
        if op['op'] == 'validate':
            for k in ('signed_by', 'name_user'):
                if k in op['packet']:
                    c = copy.deepcopy(sc)
                    del c['ops'][i]['packet'][k]
                    yield c
