"""Engine registry: property -> generator; scenario['engine'] -> executor."""
import copy
import random


def _rng(seed, salt=0):
    return random.Random(seed * 7919 + salt)


def generate(prop, seed, tier='quick'):
    rng = _rng(seed)
    if prop in ('C03', 'C04', 'C05', 'C10'):
        from engines import pipeline_gen
        return pipeline_gen.GENERATORS[prop](rng, seed, tier)
    if prop == 'C06':
        from engines import pipeline_gen
        if seed % 4 == 0:
            from engines import framing
            return framing.generate(rng, seed, tier)
        return pipeline_gen.gen_c06(rng, seed, tier)
    if prop == 'C18' and seed % 6 == 0:
        from engines import svsnet
        return svsnet.generate(rng, seed, tier)
    mod = _module_for(prop)
    return mod.generate(rng, seed, tier)


def _module_for(prop):
    import importlib
    name = {'C02': 'sigs', 'C14': 'trustchain', 'C15': 'keychain', 'C17': 'registration', 'C18': 'svs',
            'C19': 'segfetch', 'C20': 'clientconf'}[prop]
    return importlib.import_module('engines.' + name)


class WallHang(KeyboardInterrupt):
    """One callback of the simulated loop did not return for HANG_S seconds of real time: code that loops without ever
    yielding to the event loop.  (A KeyboardInterrupt, so that neither asyncio's task machinery nor an `except Exception`
    of the code under test swallows it.)"""


HANG_S = float(__import__('os').environ.get('VERIF_HANG_S', '120'))
# (keychain scenarios run no event loop - a history with a fault at every storage step legitimately takes minutes in the
# thorough tier: no watchdog there)
NO_WATCHDOG = ('keychain',)
_hang = {}


def _on_alarm(signum, frame):
    import traceback
    stack = traceback.extract_stack(frame)
    inner = [f for f in stack if '/ndn/' in f.filename]
    where = 'unknown'
    if inner:
        f = inner[-1]
        mod = f.filename.split('/ndn/', 1)[1].rsplit('.py', 1)[0].replace('/', '.')
        where = f'{mod}.{f.name}'
    _hang['where'] = where
    _hang['stack'] = [f'{f.filename.rsplit("/", 2)[-2]}/{f.filename.rsplit("/", 1)[-1]}:{f.lineno} {f.name}' for f in stack[-8:]]
    raise WallHang(where)


def execute(sc, keep_events=False):
    """Run one scenario.  A step cap does not bound a loop that never yields: a real-time watchdog turns it into a violation."""
    import signal
    import threading
    if HANG_S <= 0 or sc.get('engine') in NO_WATCHDOG or threading.current_thread() is not threading.main_thread():
        return _execute(sc, keep_events)
    _hang.clear()
    old = signal.signal(signal.SIGALRM, _on_alarm)
    signal.setitimer(signal.ITIMER_REAL, HANG_S)
    res = None
    try:
        res = _execute(sc, keep_events)
    except WallHang:
        pass
    finally:
        signal.setitimer(signal.ITIMER_REAL, 0)
        signal.signal(signal.SIGALRM, old)
    if _hang:
        from simkit.core import Result
        prop = sc.get('property', '?')
        r = res if res is not None else Result()
        where = _hang.get('where', 'unknown')
        r.violations = [v for v in r.violations] + [{
            'property': prop, 'rule': 'hang', 'component': sc.get('engine', '?'), 'where': where,
            'detail': f'the code under test kept the event loop busy for more than {HANG_S:.0f} s of real time without ever '
                      f'yielding (innermost library frame {where}; stack tail: {" <- ".join(reversed(_hang.get("stack", [])[-5:]))})',
            'signature': f'{prop}:hang:{sc.get("engine", "?")}:{where}'}]
        r.nontrivial = True
        _hang.clear()
        return r
    return res


def _execute(sc, keep_events=False):
    eng = sc['engine']
    if eng == 'pipeline':
        from engines import pipeline
        if sc.get('property') == 'C10':
            return pipeline.execute_differential(sc, keep_events)
        res = pipeline.execute(sc, keep_events)
        _pipeline_nontrivial(sc, res)
        return res
    import importlib
    mod = importlib.import_module('engines.' + eng)
    return mod.execute(sc, keep_events)


def _pipeline_nontrivial(sc, res):
    ents = sum(1 for o in sc['ops'] if o['op'] in ('express', 'attach'))
    faults = any(k.startswith('fault.') for k in res.stats)
    res.nontrivial = ents >= 2 and (sc.get('meta', {}).get('lattice', 0) > 0 or faults)


def ops_key(sc):
    return 'trials' if sc['engine'] == 'framing' else 'ops'


def batch_size(prop):
    return {'C15': 2, 'C14': 10, 'C02': 40}.get(prop, 100)


def simplifications(sc):
    """Candidate simplified scenarios (each tried once by the minimiser, in order)."""
    eng = sc['engine']
    if eng == 'pipeline':
        yield from _pipeline_simplify(sc)
    else:
        import importlib
        mod = importlib.import_module('engines.' + eng)
        f = getattr(mod, 'simplifications', None)
        if f:
            yield from f(sc)


def _pipeline_simplify(sc):
    for key, val in (('turn_cost_us', 0), ('debug_log', False), ('wall_gran_us', 1000), ('face', 'direct')):
        if sc['config'].get(key) != val:
            c = copy.deepcopy(sc)
            c['config'][key] = val
            yield c
    for i, op in enumerate(sc['ops']):
        if op.get('cuts'):
            c = copy.deepcopy(sc)
            c['ops'][i].pop('cuts', None)
            c['ops'][i].pop('gap_us', None)
            yield c
        if isinstance(op.get('pkt'), dict) and op['pkt'].get('lp') and 'nack' not in op['pkt']['lp'] \
                and 'frag' not in op['pkt']['lp']:
            c = copy.deepcopy(sc)
            c['ops'][i]['pkt'] = op['pkt']['pid']
            yield c
        if op.get('validator') and op['validator'].get('latency_us'):
            c = copy.deepcopy(sc)
            c['ops'][i]['validator']['latency_us'] = 0
            yield c
        if op.get('replies') and len(op['replies']) > 1:
            c = copy.deepcopy(sc)
            c['ops'][i]['replies'] = op['replies'][:1]
            yield c
