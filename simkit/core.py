"""World: one simulated run = loop + clocks + seams + history + violation list."""
import collections
import hashlib
import json
import logging
import os
import traceback
import warnings

from .loop import SimLoop, SimLimit, WallClock, FakeTimeModule
from .seams import Seams, SeededRandom, install_clock_and_random

W_US = 1500          # abstention window around a deadline / coincidence (microseconds)

warnings.filterwarnings('ignore', category=RuntimeWarning, message='coroutine .* was never awaited')


class HarnessError(Exception):
    """The machinery itself failed (never reported as a property violation)."""


def jdefault(o):
    if isinstance(o, (bytes, bytearray, memoryview)):
        return 'hex:' + bytes(o).hex()
    if isinstance(o, (set, frozenset)):
        return sorted(o)
    if isinstance(o, tuple):
        return list(o)
    return repr(o)


def _norm(o):
    if isinstance(o, dict):
        return {(('hex:' + bytes(k).hex()) if isinstance(k, (bytes, bytearray, memoryview)) else str(k)): _norm(v)
                for k, v in o.items()}
    if isinstance(o, (list, tuple)):
        return [_norm(x) for x in o]
    if isinstance(o, (bytes, bytearray, memoryview)):
        return 'hex:' + bytes(o).hex()
    if isinstance(o, (set, frozenset)):
        return sorted(_norm(x) for x in o)
    return o


def canon(obj) -> str:
    return json.dumps(_norm(obj), sort_keys=True, default=jdefault, separators=(',', ':'))


def innermost_ndn_frame(exc: BaseException) -> str:
    """`module.function` of the innermost traceback frame that lies inside the ndn package."""
    tb = exc.__traceback__
    found = None
    while tb is not None:
        fn = tb.tb_frame.f_code.co_filename
        if '/ndn/' in fn.replace(os.sep, '/'):
            mod = fn.replace(os.sep, '/').split('/ndn/', 1)[1]
            if mod.endswith('.py'):
                mod = mod[:-3]
            found = mod.replace('/', '.') + '.' + tb.tb_frame.f_code.co_name
        tb = tb.tb_next
    return found or 'outside-ndn'


def exc_brief(exc: BaseException) -> str:
    # (object addresses differ from run to run: they must not get into a history that is to replay byte for byte)
    return f'{type(exc).__name__}: {_ADDR.sub(" at 0x..", str(exc))[:160]}'


_ADDR = __import__('re').compile(r' at 0x[0-9a-fA-F]+')


class Result:
    def __init__(self):
        self.violations = []        # list of dict(property, rule, component, where, detail, signature)
        self.digest = ''
        self.stats = collections.Counter()     # faults fired, probes reached
        self.order_sig = ''
        self.nontrivial = False
        self.sim_us = 0
        self.steps = 0
        self.limit = None
        self.ambiguous = 0
        self.events = None          # kept only when asked (replay / samples)

    def to_json(self):
        return {
            'violations': self.violations, 'digest': self.digest, 'stats': dict(self.stats),
            'order_sig': self.order_sig, 'nontrivial': self.nontrivial, 'sim_us': self.sim_us,
            'steps': self.steps, 'limit': self.limit, 'ambiguous': self.ambiguous,
        }


class World:
    def __init__(self, scenario, max_steps=20000, max_time=120.0):
        cfg = scenario.get('config', {})
        self.scenario = scenario
        self.cfg = cfg
        self.loop = SimLoop(turn_cost=cfg.get('turn_cost_us', 0) / 1e6,
                            max_steps=max_steps, max_time=max_time)
        self.wall = WallClock(self.loop, cfg.get('wall_gran_us', 1000))
        self.time_module = FakeTimeModule(self.wall)
        self.seams = Seams()
        self.srand = SeededRandom(scenario.get('seed', 0))
        self.events = []
        self.violations = []
        self.stats = collections.Counter()
        self.order = []             # compact order-signature tokens
        self.ambiguous = 0
        self._seq = 0
        install_clock_and_random(self.seams, self.time_module, self.srand)
        self._log_state = None

    # --- time helpers --------------------------------------------------------------------
    def now_us(self) -> int:
        return int(round(self.loop.time() * 1e6))

    def at(self, t_us, fn, *args):
        return self.loop.call_at(t_us / 1e6, fn, *args)

    def after(self, d_us, fn, *args):
        return self.loop.call_at(self.loop.time() + d_us / 1e6, fn, *args)

    # --- recording -----------------------------------------------------------------------
    def log(self, kind, **kw):
        self._seq += 1
        ev = {'seq': self._seq, 't': self.now_us(), 'step': self.loop.steps, 'k': kind}
        ev.update(kw)
        self.events.append(ev)
        return ev

    def tok(self, token):
        self.order.append(token)

    def violate(self, prop, rule, component, where, detail):
        sig = f'{prop}:{rule}:{component}:{where}'
        for v in self.violations:
            if v['signature'] == sig:
                return
        self.violations.append({'property': prop, 'rule': rule, 'component': component,
                                'where': where, 'detail': detail, 'signature': sig,
                                't': self.now_us()})

    # --- logging level seam (DEBUG makes ndn evaluate Name.to_str on received names) ------
    def set_ndn_log_level(self, debug: bool):
        lg = logging.getLogger('ndn')
        self._log_state = (lg.level, lg.propagate, list(lg.handlers))
        lg.handlers = [logging.NullHandler()]
        lg.propagate = False
        lg.setLevel(logging.DEBUG if debug else logging.CRITICAL + 1)

    def restore_log(self):
        if self._log_state is not None:
            lg = logging.getLogger('ndn')
            lg.setLevel(self._log_state[0])
            lg.propagate = self._log_state[1]
            lg.handlers = self._log_state[2]
            self._log_state = None

    # --- run / finish --------------------------------------------------------------------
    def run(self):
        try:
            self.loop.run_to_quiescence()
            return None
        except SimLimit as e:
            return str(e)

    def close(self):
        try:
            # let cancelled tasks unwind so that destructors stay quiet
            for t in list(self.loop.tasks):
                if not t.done():
                    try:
                        t.cancel()
                    except RecursionError:
                        pass        # tasks of the code under test that (directly or not) await themselves

            self.loop.limit_hit = None
            self.loop.max_steps = self.loop.steps + 2000
            self.loop.after_step = None
            self.loop._stopping = False
            try:
                self.loop.run_forever()
            except BaseException:
                pass
        finally:
            self.seams.restore()
            self.restore_log()
            self.loop.dispose()

    def result(self, limit=None, keep_events=False) -> Result:
        r = Result()
        r.violations = self.violations
        r.stats = self.stats
        r.sim_us = self.now_us()
        r.steps = self.loop.steps
        r.limit = limit
        r.ambiguous = self.ambiguous
        h = hashlib.sha256()
        h.update(canon(self.events).encode())
        h.update(canon([r.steps, r.sim_us, [v['signature'] for v in self.violations]]).encode())
        r.digest = h.hexdigest()
        r.order_sig = hashlib.sha1('|'.join(self.order).encode()).hexdigest()[:16]
        if keep_events:
            r.events = self.events
        return r


def format_exc(e: BaseException) -> str:
    return ''.join(traceback.format_exception(type(e), e, e.__traceback__))[-2000:]
