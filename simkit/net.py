"""Simulated network: a direct Face, and fake peers behind the real Tcp/Unix/Udp faces."""
import asyncio

from ndn.transport.face import Face

from . import tlvref


class DirectFace(Face):
    """Minimal Face: delivers each packet with create_task(callback(typ, buf)) like the real faces."""

    def __init__(self, on_tx):
        super().__init__()
        self._on_tx = on_tx
        self._closed = None

    async def open(self):
        d = getattr(self, 'open_delay_us', 0)
        if d:
            await asyncio.sleep(d / 1e6)        # connecting takes a while (a handshake, a slow peer)
        self._closed = asyncio.get_running_loop().create_future()
        self.running = True
        hook = getattr(self, 'on_opened', None)
        if hook is not None:
            # something else that was waiting for the connection (another task of the program) runs right after open()
            # has returned - before whatever the application itself schedules next
            asyncio.get_running_loop().call_soon(hook)

    def shutdown(self):
        self.running = False
        if self._closed is not None and not self._closed.done():
            self._closed.set_result(True)

    def send(self, data: bytes):
        exc = getattr(self, 'fail_next_send', None)
        if exc is not None:
            self.fail_next_send = None          # a transport error on this one send (buffer full, interface gone)
            raise exc
        snap = bytes(data)
        if not isinstance(data, bytes):
            # a transport may queue what it was handed without copying it (asyncio's socket transports do when the peer
            # is slow): the buffer has to keep its content once it was given away
            self.recheck_tx()
            held = getattr(self, 'tx_held', None)
            if held is None:
                held = self.tx_held = []
            held.append((data, snap))
            del held[:-8]
        self._on_tx(snap)

    def recheck_tx(self):
        """buffers handed to send() earlier and possibly still queued in a transport: unchanged?"""
        for obj, snap in getattr(self, 'tx_held', None) or ():
            try:
                same = bytes(obj) == snap
            except (ValueError, TypeError):
                same = True         # released
            if not same and getattr(self, 'on_tx_mutated', None) is not None:
                self.on_tx_mutated(snap, bytes(obj))

    async def run(self):
        await self._closed

    def isLocalFace(self):
        return getattr(self, 'local', True)

    # harness side
    def deliver(self, wire: bytes):
        if not self.running or not wire:
            return False
        try:
            typ, _ = tlvref.dec_var(wire, 0, strict=False)
        except tlvref.TlvError:
            return False
        form = getattr(self, 'rx_buffer', 'bytes')
        if form == 'bytearray':
            wire = bytearray(wire)              # a transport may hand over a mutable buffer
        elif form == 'memoryview':
            wire = memoryview(bytearray(wire))  # ... or a writable view on its receive buffer
        asyncio.get_running_loop().create_task(self.callback(typ, wire))
        return True

    def peer_close(self):
        self.shutdown()

    def crash(self, exc):
        """the transport fails in a way run() does not translate: run() raises"""
        self.running = False
        if self._closed is not None and not self._closed.done():
            self._closed.set_exception(exc)


class FakeWriter:
    def __init__(self, on_bytes, on_close=None):
        self._on_bytes = on_bytes
        self._on_close = on_close
        self.closed = False

    def write(self, data):
        if not self.closed:
            snap = bytes(data)
            if not isinstance(data, bytes):
                # (a real transport keeps what it could not send at once without copying it)
                self.recheck_tx()
                held = self.__dict__.setdefault('tx_held', [])
                held.append((data, snap))
                del held[:-8]
            self._on_bytes(snap)

    def recheck_tx(self):
        for obj, snap in self.__dict__.get('tx_held', ()):
            try:
                same = bytes(obj) == snap
            except (ValueError, TypeError):
                same = True
            cb = getattr(self, 'on_tx_mutated', None)
            if not same and cb is not None:
                cb(snap, bytes(obj))

    def close(self):
        # like a real transport: close() -> connection_lost(None) -> reader.feed_eof(), one iteration later
        if not self.closed:
            self.closed = True
            if self._on_close is not None:
                asyncio.get_running_loop().call_soon(self._on_close)

    def is_closing(self):
        return self.closed

    async def wait_closed(self):
        return None

    async def drain(self):
        return None

    def get_extra_info(self, name, default=None):
        return default


class StreamPeer:
    """Remote end of a TCP/Unix connection: a real StreamReader fed by the simulator."""

    def __init__(self, on_tx):
        self.reader = None
        self.writer = None
        self._buf = b''
        self._on_tx = on_tx
        self.connects = []

    def _on_bytes(self, data):
        # re-frame what the app wrote into packets with the independent reader
        self._buf += data
        pkts, rest = tlvref.frame_stream(self._buf)
        self._buf = rest
        for _typ, wire in pkts:
            self._on_tx(wire)

    async def open_connection(self, host=None, port=None, **kw):
        self.connects.append(('tcp', host, port))
        return self._mk()

    async def open_unix_connection(self, path=None, **kw):
        self.connects.append(('unix', path))
        return self._mk()

    def _mk(self):
        self.reader = asyncio.StreamReader(limit=2 ** 26, loop=asyncio.get_running_loop())
        reader = self.reader
        self.writer = FakeWriter(self._on_bytes, lambda: None if _eof_fed(reader) or reader.exception() else reader.feed_eof())
        self.writer.on_tx_mutated = getattr(self, 'on_tx_mutated', None)
        self._buf = b''
        return self.reader, self.writer

    def install(self, seams):
        seams.set(asyncio, 'open_connection', self.open_connection)
        seams.set(asyncio, 'open_unix_connection', self.open_unix_connection)

    # harness side
    def feed(self, chunk: bytes):
        if self.reader is None or _eof_fed(self.reader) or self.reader.exception() is not None:
            return False
        if chunk:
            self.reader.feed_data(chunk)
        return True

    def eof(self):
        if self.reader is not None and not _eof_fed(self.reader):
            self.reader.feed_eof()

    def reset(self, kind='reset'):
        """the connection dies with an error instead of a clean EOF: reset by peer, keep-alive time-out, abort, ..."""
        import errno
        exc = {'reset': ConnectionResetError('simulated reset'),
               'timeout': TimeoutError(errno.ETIMEDOUT, 'Connection timed out (simulated)'),
               'abort': ConnectionAbortedError('simulated abort'),
               'pipe': BrokenPipeError(errno.EPIPE, 'Broken pipe (simulated)'),
               'unreach': OSError(errno.EHOSTUNREACH, 'No route to host (simulated)')}[kind or 'reset']
        if self.reader is not None and self.reader.exception() is None:
            self.reader.set_exception(exc)


def _eof_fed(reader):
    # at_eof() is only true once the buffer has been drained as well; what matters here is whether EOF was fed
    return reader._eof


class FakeDatagramTransport:
    def __init__(self, peer):
        self.peer = peer
        self.closed = False

    def sendto(self, data, addr=None):
        if not self.closed:
            self.peer._on_tx(bytes(data))

    def close(self):
        if not self.closed:
            self.closed = True
            loop = asyncio.get_running_loop()
            loop.call_soon(self.peer.protocol.connection_lost, None)

    def is_closing(self):
        return self.closed

    def abort(self):
        self.close()

    def get_extra_info(self, name, default=None):
        return default


class DatagramPeer:
    def __init__(self, on_tx):
        self._on_tx = on_tx
        self.protocol = None
        self.transport = None
        self.connects = []

    async def create_datagram_endpoint(self, loop, protocol_factory, remote_addr):
        self.connects.append(('udp',) + tuple(remote_addr or ()))
        self.protocol = protocol_factory()
        self.transport = FakeDatagramTransport(self)
        self.protocol.connection_made(self.transport)
        return self.transport, self.protocol

    def install(self, loop):
        loop.simnet = self

    # harness side: like the selector loop, exceptions in datagram_received reach the loop handler
    def deliver(self, datagram: bytes):
        if self.transport is None or self.transport.closed:
            return False
        asyncio.get_running_loop().call_soon(self.protocol.datagram_received, datagram, ('peer', 6363))
        return True

    def error(self, exc):
        if self.transport is not None and not self.transport.closed:
            asyncio.get_running_loop().call_soon(self.protocol.error_received, exc)
