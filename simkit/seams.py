"""Module-attribute seams: rebinding of names inside ndn (and asyncio) for the duration of one run."""
import importlib
import random


class Seams:
    def __init__(self):
        self._saved = []

    def set(self, module, attr, value):
        if isinstance(module, str):
            module = importlib.import_module(module)
        missing = object()
        old = module.__dict__.get(attr, missing)
        self._saved.append((module, attr, old, missing))
        setattr(module, attr, value)

    def restore(self):
        for module, attr, old, missing in reversed(self._saved):
            if old is missing:
                try:
                    delattr(module, attr)
                except AttributeError:
                    pass
            else:
                setattr(module, attr, old)
        self._saved = []

    def __enter__(self):
        return self

    def __exit__(self, *exc):
        self.restore()
        return False


class SeededRandom:
    """Deterministic replacement for the random sources ndn uses (nonces, key generation)."""

    def __init__(self, seed):
        self.rng = random.Random(seed)

    def randint(self, a, b):
        return self.rng.randint(a, b)

    def randbits(self, k):
        return self.rng.getrandbits(k)

    def randfunc(self, n):
        return self.rng.randbytes(n)

    get_random_bytes = randfunc


def install_clock_and_random(seams: Seams, wall_time_module, srand: SeededRandom):
    """The seams every engine needs: wall clock in ndn.utils, nonce generator."""
    import ndn.utils
    seams.set(ndn.utils, 'time', wall_time_module)
    seams.set(ndn.utils, 'randint', srand.randint)
