"""Virtual-time asyncio event loop and simulated clocks.

SimLoop keeps asyncio's FIFO ready queue (library code may rely on it); what the simulator owns is
*when* timers and external stimuli fire.  Time only moves (a) by a jump to the next timer when
nothing is runnable and (b) by a per-scenario `turn_cost` added after every loop iteration that ran
callbacks - the latter lets a timer become due *between* two iterations of a callback chain, which
is what happens in a real loop where every iteration takes non-zero time.
"""
import asyncio
import heapq
from asyncio import events


class SimLimit(Exception):
    """Raised out of run() when a step or virtual-time cap is hit (harness limit, not a violation)."""


class SimLoop(asyncio.BaseEventLoop):
    RESOLUTION = 1e-6

    def __init__(self, turn_cost=0.0, max_steps=20000, max_time=120.0):
        super().__init__()
        self._now = 0.0
        self._clock_resolution = self.RESOLUTION
        self.turn_cost = float(turn_cost)
        self.max_steps = max_steps
        self.max_time = max_time
        self.steps = 0
        self.turns = 0
        self.quiescent = False
        self.limit_hit = None
        self.after_step = None          # callable() run after every handle
        self.exc_reports = []           # what the loop's exception handler saw
        self.tasks = []                 # every task created during the run (strong refs, in order)
        self.set_exception_handler(self._record_exception)
        self.set_task_factory(SimLoop._sim_task_factory)
        self._ran_last_turn = False

    # --- clock ------------------------------------------------------------------------------
    def time(self):
        return self._now

    # --- plumbing BaseEventLoop expects -----------------------------------------------------
    def _process_events(self, event_list):
        pass

    def _write_to_self(self):
        pass

    @staticmethod
    def _sim_task_factory(loop, coro, context=None):
        if context is None:
            task = asyncio.Task(coro, loop=loop)
        else:
            task = asyncio.Task(coro, loop=loop, context=context)
        loop.tasks.append(task)
        return task

    def _record_exception(self, loop, context):
        exc = context.get('exception')
        if 'was never retrieved' in context.get('message', ''):
            # reported from an object's destructor, i.e. whenever the garbage collector gets to it: not part of a history
            # that has to replay. Tasks that died are read deterministically at quiescence (unretrieved_task_errors).
            self.gc_reports = getattr(self, 'gc_reports', 0) + 1
            return
        self.exc_reports.append({
            'message': context.get('message', ''),
            'exc_type': type(exc).__name__ if exc is not None else None,
            'exc': exc,
        })

    # --- the scheduler ----------------------------------------------------------------------
    def _run_once(self):
        sched = self._scheduled
        while sched and sched[0]._cancelled:
            self._timer_cancelled_count -= 1
            h = heapq.heappop(sched)
            h._scheduled = False

        if self._ready:
            if self._ran_last_turn and self.turn_cost:
                self._now += self.turn_cost
        elif sched:
            when = sched[0]._when
            if when > self._now:
                self._now = when
        else:
            self.quiescent = True
            self._stopping = True
            return

        if self._now > self.max_time:
            self.limit_hit = 'time'
            self._stopping = True
            return

        end_time = self._now + self._clock_resolution
        while sched:
            h = sched[0]
            if h._when > end_time:
                break
            h = heapq.heappop(sched)
            h._scheduled = False
            if not h._cancelled:
                self._ready.append(h)
            else:
                self._timer_cancelled_count -= 1

        self.turns += 1
        ntodo = len(self._ready)
        self._ran_last_turn = ntodo > 0
        after = self.after_step
        for _ in range(ntodo):
            handle = self._ready.popleft()
            if handle._cancelled:
                continue
            self.steps += 1
            handle._run()
            if after is not None:
                after()
        handle = None
        if self.steps > self.max_steps:
            self.limit_hit = 'steps'
            self._stopping = True

    def run_to_quiescence(self):
        """Run until nothing is runnable and no timer is pending (or a cap is hit)."""
        self.quiescent = False
        self.run_forever()
        if self.limit_hit:
            raise SimLimit(self.limit_hit)

    # --- transports -------------------------------------------------------------------------
    async def create_datagram_endpoint(self, protocol_factory, local_addr=None, remote_addr=None, **kw):
        net = getattr(self, 'simnet', None)
        if net is None:
            raise OSError('no simulated network attached')
        return await net.create_datagram_endpoint(self, protocol_factory, remote_addr)

    # --- end-of-run inspection --------------------------------------------------------------
    def unretrieved_task_errors(self):
        """Finished tasks whose exception nobody retrieved (the flag Task.__del__ itself uses)."""
        out = []
        for t in self.tasks:
            if t.done() and not t.cancelled() and getattr(t, '_log_traceback', False):
                out.append(t)
        return out

    def dispose(self):
        """Cancel whatever is left, silence destructor warnings, close."""
        for t in self.tasks:
            if not t.done():
                t._log_destroy_pending = False
                t.cancel()
            elif not t.cancelled() and getattr(t, '_log_traceback', False):
                t._log_traceback = False
        self._ready.clear()
        self._scheduled.clear()
        self.tasks = []
        events._set_running_loop(None)
        if not self.is_closed():
            self.close()


class WallClock:
    """Wall clock = epoch + loop time + skew, quantised; read through module-attribute seams."""
    EPOCH_US = 1_700_000_000_000_000

    def __init__(self, loop, granularity_us=1000):
        self.loop = loop
        self.granularity_us = max(1, int(granularity_us))
        self.skew_us = 0

    def now_us(self):
        us = self.EPOCH_US + int(round(self.loop.time() * 1e6)) + self.skew_us
        return us - us % self.granularity_us

    def jump(self, delta_us):
        self.skew_us += int(delta_us)


class FakeTimeModule:
    """Stand-in for the `time` module inside ndn modules (`ndn.utils.time`, `svs.sync.time`)."""

    def __init__(self, wall: WallClock):
        self._wall = wall
        self.ticks = ()         # scripted: the k-th read finds the clock advanced by ticks[k] us (time passes between reads)
        self.reads = 0

    def time(self):
        k = self.reads
        self.reads += 1
        if k < len(self.ticks) and self.ticks[k]:
            self._wall.jump(self.ticks[k])
        # +0.3 ms-fraction guard so that int(t * 1000) is the intended millisecond despite binary
        # floating point; only applied when the clock granularity is a whole millisecond.
        us = self._wall.now_us()
        if self._wall.granularity_us % 1000 == 0:
            return (us + 300) / 1e6
        return us / 1e6

    def monotonic(self):
        return self._wall.loop.time()

    def sleep(self, _s):
        raise RuntimeError('real sleep inside simulation')
