"""Independent, strict TLV reader/writer for NDN packets (written without using ndn.encoding).

Used by oracles to compute the NDN-specified signed portions, digests and LP envelopes from wire
bytes, and by the fake peers to re-frame what the application sends.
"""
import hashlib


class TlvError(Exception):
    pass


T_INTEREST = 0x05
T_DATA = 0x06
T_NAME = 0x07
T_GENERIC = 0x08
T_IMPLICIT_DIGEST = 0x01
T_PARAMS_DIGEST = 0x02
T_CAN_BE_PREFIX = 0x21
T_MUST_BE_FRESH = 0x12
T_FWD_HINT = 0x1e
T_NONCE = 0x0a
T_LIFETIME = 0x0c
T_HOP_LIMIT = 0x22
T_APP_PARAM = 0x24
T_INT_SIG_INFO = 0x2c
T_INT_SIG_VALUE = 0x2e
T_META_INFO = 0x14
T_CONTENT = 0x15
T_SIG_INFO = 0x16
T_SIG_VALUE = 0x17
T_CONTENT_TYPE = 0x18
T_FRESHNESS = 0x19
T_FINAL_BLOCK = 0x1a
T_SIG_TYPE = 0x1b
T_KEY_LOCATOR = 0x1c
T_KEY_DIGEST = 0x1d
T_SIG_NONCE = 0x26
T_SIG_TIME = 0x28
T_SIG_SEQ = 0x2a
T_SEGMENT = 0x32  # SegmentNameComponent (rev3 convention: 50)

T_LP_PACKET = 0x64
T_LP_FRAGMENT = 0x50
T_LP_SEQUENCE = 0x51
T_LP_FRAG_INDEX = 0x52
T_LP_FRAG_COUNT = 0x53
T_LP_PIT_TOKEN = 0x62
T_LP_NACK = 0x0320
T_LP_NACK_REASON = 0x0321
T_LP_INCOMING_FACE = 0x032c
T_LP_NEXT_HOP = 0x0330
T_LP_CACHE_POLICY = 0x0334
T_LP_CONGESTION_MARK = 0x0340
T_LP_ACK = 0x0344
T_LP_TX_SEQUENCE = 0x0348
T_LP_NON_DISCOVERY = 0x034c
T_LP_PREFIX_ANN = 0x0350


def enc_var(n: int) -> bytes:
    if n < 0:
        raise TlvError('negative')
    if n <= 0xfc:
        return bytes([n])
    if n <= 0xffff:
        return b'\xfd' + n.to_bytes(2, 'big')
    if n <= 0xffffffff:
        return b'\xfe' + n.to_bytes(4, 'big')
    return b'\xff' + n.to_bytes(8, 'big')


def dec_var(buf, off: int, strict=True):
    if off >= len(buf):
        raise TlvError('truncated number')
    b0 = buf[off]
    if b0 <= 0xfc:
        return b0, 1
    width = {0xfd: 2, 0xfe: 4, 0xff: 8}[b0]
    if off + 1 + width > len(buf):
        raise TlvError('truncated number')
    val = int.from_bytes(bytes(buf[off + 1:off + 1 + width]), 'big')
    if strict:
        lo = {2: 0xfd, 4: 0x10000, 8: 0x100000000}[width]
        if val < lo:
            raise TlvError('non-minimal number')
    return val, 1 + width


def tlv(typ: int, value: bytes = b'') -> bytes:
    value = bytes(value)
    return enc_var(typ) + enc_var(len(value)) + value


def nni(n: int) -> bytes:
    if n <= 0xff:
        return n.to_bytes(1, 'big')
    if n <= 0xffff:
        return n.to_bytes(2, 'big')
    if n <= 0xffffffff:
        return n.to_bytes(4, 'big')
    return n.to_bytes(8, 'big')


def dec_nni(b: bytes) -> int:
    if len(b) not in (1, 2, 4, 8):
        raise TlvError('bad nni width')
    return int.from_bytes(bytes(b), 'big')


def elements(buf, start=0, end=None, strict=True):
    """Parse buf[start:end] as a sequence of TLVs -> list of (type, tl_start, value_start, end)."""
    if end is None:
        end = len(buf)
    out = []
    off = start
    while off < end:
        typ, n1 = dec_var(buf, off, strict)
        if off + n1 > end:
            raise TlvError('type crosses parent')
        ln, n2 = dec_var(buf, off + n1, strict)
        vs = off + n1 + n2
        if vs > end or vs + ln > end:
            raise TlvError('element crosses parent')
        out.append((typ, off, vs, vs + ln))
        off = vs + ln
    return out


# which children of which element are themselves sequences of TLVs (by the packet format, not by guessing from type numbers)
_NESTED = {None: {0x05, 0x06}, 0x05: {0x07, 0x2c}, 0x06: {0x07, 0x14, 0x16}, 0x07: set(), 0x14: {0x1a}, 0x1a: set(),
           0x16: {0x1c}, 0x2c: {0x1c}, 0x1c: {0x07}}


def well_nested(buf, start=0, end=None, parent=None):
    """every element lies entirely inside its parent (Interest/Data, Name, MetaInfo, SignatureInfo, KeyLocator)"""
    try:
        for typ, _s, vs, e in elements(buf, start, end, strict=False):
            if typ in _NESTED.get(parent, ()) and not well_nested(buf, vs, e, typ):
                return False
    except (TlvError, IndexError):
        return False
    return True


def single(buf, strict=True):
    """buf must be exactly one TLV -> (type, value_start, end)."""
    els = elements(buf, 0, len(buf), strict)
    if len(els) != 1:
        raise TlvError('not exactly one element')
    typ, _s, vs, e = els[0]
    return typ, vs, e


def frame_stream(buf: bytes):
    """Split a byte stream into complete top-level TLVs -> (list of (type, bytes), remainder)."""
    out = []
    off = 0
    n = len(buf)
    while off < n:
        try:
            typ, n1 = dec_var(buf, off, strict=False)
            ln, n2 = dec_var(buf, off + n1, strict=False)
        except TlvError:
            break
        end = off + n1 + n2 + ln
        if end > n:
            break
        out.append((typ, bytes(buf[off:end])))
        off = end
    return out, bytes(buf[off:])


def find(els, typ):
    for e in els:
        if e[0] == typ:
            return e
    return None


# ---------------------------------------------------------------------------------------------
# names


def name_components(buf, vs, ve):
    """Components of a Name value -> list of full component TLV bytes."""
    return [bytes(buf[s:e]) for (_t, s, _v, e) in elements(buf, vs, ve)]


def comp(typ: int, value: bytes) -> bytes:
    return tlv(typ, value)


def _pct(s: str) -> bytes:
    out = bytearray()
    i = 0
    while i < len(s):
        if s[i] == '%' and i + 2 < len(s) + 0 and all(c in '0123456789abcdefABCDEF' for c in s[i + 1:i + 3]):
            out.append(int(s[i + 1:i + 3], 16))
            i += 3
        else:
            out += s[i].encode()
            i += 1
    return bytes(out)


TYPED = {'seg': T_SEGMENT, 'off': 0x34, 'v': 0x36, 't': 0x38, 'seq': 0x3a}


def name_from_uri(uri: str):
    """URI parser for the simulator's own names (the subset of the NDN URI scheme the scenarios use):
    /a/b, percent-escapes, `<decimal type>=value`, seg= off= v= t= seq= (numbers), sha256digest=<hex>, params-sha256=<hex>."""
    comps = []
    for part in uri.split('/'):
        if part == '':
            continue
        head, sep, tail = part.partition('=')
        if sep and head in TYPED and tail.isdigit():
            comps.append(tlv(TYPED[head], nni_min(int(tail))))
        elif sep and head == 'sha256digest':
            comps.append(tlv(T_IMPLICIT_DIGEST, bytes.fromhex(tail)))
        elif sep and head == 'params-sha256':
            comps.append(tlv(T_PARAMS_DIGEST, bytes.fromhex(tail)))
        elif sep and head.isdigit() and tail.startswith('~rep:'):
            _r, n, hx = tail.split(':')                     # <type>=~rep:<count>:<hex byte(s)>  (long values, compactly)
            comps.append(tlv(int(head), bytes.fromhex(hx) * int(n)))
        elif sep and head.isdigit():
            comps.append(tlv(int(head), _pct(tail)))
        else:
            comps.append(tlv(T_GENERIC, _pct(part)))
    return comps


def nni_min(n: int) -> bytes:
    return nni(n)


def name_tlv(comps) -> bytes:
    return tlv(T_NAME, b''.join(comps))


# ---------------------------------------------------------------------------------------------
# packets


class ParsedData:
    __slots__ = ('wire', 'name', 'name_span', 'meta', 'content', 'sig_info', 'sig_value',
                 'signed_portion', 'signed_ambiguous', 'els')


def parse_data(wire) -> ParsedData:
    wire = bytes(wire)
    typ, vs, ve = single(wire)
    if typ != T_DATA:
        raise TlvError('not Data')
    els = elements(wire, vs, ve)
    p = ParsedData()
    p.wire = wire
    p.els = els
    n = find(els, T_NAME)
    if n is None or els[0][0] != T_NAME:
        raise TlvError('Data without leading Name')
    p.name = name_components(wire, n[2], n[3])
    p.name_span = (n[1], n[3])
    m = find(els, T_META_INFO)
    p.meta = wire[m[2]:m[3]] if m else None
    c = find(els, T_CONTENT)
    p.content = wire[c[2]:c[3]] if c else None
    si = find(els, T_SIG_INFO)
    sv = find(els, T_SIG_VALUE)
    p.sig_info = wire[si[2]:si[3]] if si else None
    p.sig_value = wire[sv[2]:sv[3]] if sv else None
    p.signed_portion = wire[n[1]:si[3]] if si is not None else None
    # "Name through SignatureInfo" and "everything before SignatureValue" coincide in a well-formed packet;
    # when an unrecognised element sits between the two the specification texts disagree
    p.signed_ambiguous = bool(si is not None and sv is not None and sv[1] != si[3])
    return p


class ParsedInterest:
    __slots__ = ('wire', 'name', 'els', 'can_be_prefix', 'must_be_fresh', 'nonce', 'lifetime',
                 'hop_limit', 'app_param', 'sig_info', 'sig_value', 'signed_portion',
                 'digest_portion', 'params_digest', 'has_params_digest', 'n_params_digest')


def parse_interest(wire) -> ParsedInterest:
    wire = bytes(wire)
    typ, vs, ve = single(wire)
    if typ != T_INTEREST:
        raise TlvError('not Interest')
    els = elements(wire, vs, ve)
    p = ParsedInterest()
    p.wire = wire
    p.els = els
    if not els or els[0][0] != T_NAME:
        raise TlvError('Interest without leading Name')
    n = els[0]
    p.name = name_components(wire, n[2], n[3])
    p.can_be_prefix = find(els, T_CAN_BE_PREFIX) is not None
    p.must_be_fresh = find(els, T_MUST_BE_FRESH) is not None
    e = find(els, T_NONCE)
    p.nonce = wire[e[2]:e[3]] if e else None
    e = find(els, T_LIFETIME)
    p.lifetime = int.from_bytes(wire[e[2]:e[3]], 'big') if e else None
    e = find(els, T_HOP_LIMIT)
    p.hop_limit = wire[e[2]:e[3]] if e else None
    ap = find(els, T_APP_PARAM)
    si = find(els, T_INT_SIG_INFO)
    sv = find(els, T_INT_SIG_VALUE)
    p.app_param = wire[ap[2]:ap[3]] if ap else None
    p.sig_info = wire[si[2]:si[3]] if si else None
    p.sig_value = wire[sv[2]:sv[3]] if sv else None
    p.digest_portion = wire[ap[1]:ve] if ap else None
    p.params_digest = None
    p.has_params_digest = False
    p.n_params_digest = 0
    for c in p.name:
        ct, n1 = dec_var(c, 0)
        if ct == T_PARAMS_DIGEST:
            _l, n2 = dec_var(c, n1)
            p.params_digest = c[n1 + n2:]
            p.has_params_digest = True
            p.n_params_digest += 1
    if si is not None and ap is not None:
        name_part = b''.join(c for c in p.name if dec_var(c, 0)[0] != T_PARAMS_DIGEST)
        stop = sv[1] if sv is not None else ve
        p.signed_portion = name_part + wire[ap[1]:stop]
    else:
        p.signed_portion = None
    return p


def params_digest_ok(p: ParsedInterest) -> bool:
    if p.digest_portion is None or p.params_digest is None:
        return False
    return hashlib.sha256(p.digest_portion).digest() == p.params_digest


class ParsedLp:
    __slots__ = ('wire', 'els', 'fragment', 'pit_token', 'nack', 'nack_reason', 'frag_index',
                 'frag_count', 'headers', 'in_order', 'repeated_single')


LP_SINGLE_HEADERS = frozenset([0x51, 0x52, 0x53, 0x54, 0x62, 0x0320, 0x032c, 0x0330, 0x0334, 0x0340, 0x0348, 0x034c, 0x0350])


def parse_lp(wire) -> ParsedLp:
    wire = bytes(wire)
    typ, vs, ve = single(wire)
    if typ != T_LP_PACKET:
        raise TlvError('not LpPacket')
    els = elements(wire, vs, ve)
    p = ParsedLp()
    p.wire = wire
    p.els = els
    p.headers = [(t, wire[v:e]) for (t, _s, v, e) in els if t != T_LP_FRAGMENT]
    f = find(els, T_LP_FRAGMENT)
    p.fragment = wire[f[2]:f[3]] if f else None
    t = find(els, T_LP_PIT_TOKEN)
    p.pit_token = wire[t[2]:t[3]] if t else None
    nk = find(els, T_LP_NACK)
    p.nack = nk is not None
    p.nack_reason = None
    if nk:
        sub = elements(wire, nk[2], nk[3])
        r = find(sub, T_LP_NACK_REASON)
        if r:
            p.nack_reason = int.from_bytes(wire[r[2]:r[3]], 'big')
    fi = find(els, T_LP_FRAG_INDEX)
    fc = find(els, T_LP_FRAG_COUNT)
    p.frag_index = int.from_bytes(wire[fi[2]:fi[3]], 'big') if fi else None
    p.frag_count = int.from_bytes(wire[fc[2]:fc[3]], 'big') if fc else None
    # NDNLPv2: header fields in increasing order of their type numbers, the Fragment last
    hdr_types = [t for (t, _s, _v, _e) in els if t != T_LP_FRAGMENT]
    p.in_order = all(a <= b for a, b in zip(hdr_types, hdr_types[1:])) and (f is None or els[-1][0] == T_LP_FRAGMENT)
    # Ack may be repeated, and nothing is said about repeating a header nobody knows; a second Sequence, FragIndex,
    # PitToken, Nack, ... is neither allowed nor given a meaning
    p.repeated_single = any(a == b and a in LP_SINGLE_HEADERS for a, b in zip(hdr_types, hdr_types[1:]))
    return p


def make_lp(fragment=None, headers=(), order=None):
    """headers: iterable of (type, value bytes), emitted in the given order before the fragment.
    order: None | 'frag_first' | 'reverse' | 'nack_last' - deliberately out-of-order envelopes"""
    headers = list(headers)
    tail = []
    if order == 'reverse':
        headers.reverse()
    elif order == 'nack_last':
        tail = [h for h in headers if h[0] == T_LP_NACK]
        headers = [h for h in headers if h[0] != T_LP_NACK]
    body = b''.join(tlv(t, v) for t, v in headers)
    frag = tlv(T_LP_FRAGMENT, fragment) if fragment is not None else b''
    body = frag + body if order == 'frag_first' else body + frag
    body += b''.join(tlv(t, v) for t, v in tail)
    return tlv(T_LP_PACKET, body)


def make_nack(interest_wire: bytes, reason, extra_headers=()):
    """LpPacket carrying a Nack header (reason None = Nack without reason element)."""
    body = b''.join(tlv(t, v) for t, v in extra_headers)
    inner = b'' if reason is None else tlv(T_LP_NACK_REASON, nni(reason))
    body += tlv(T_LP_NACK, inner)
    body += tlv(T_LP_FRAGMENT, interest_wire)
    return tlv(T_LP_PACKET, body)
