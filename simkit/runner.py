"""Seeded search driver: fan seeds out over processes, collect evidence, minimise and report."""
import collections
import concurrent.futures as cf
import copy
import faulthandler
import fnmatch
import json
import multiprocessing
import os
import random
import sys
import time
import traceback

from .core import HarnessError, canon

VERIF = os.path.dirname(os.path.dirname(os.path.abspath(__file__)))
OUT = os.path.join(VERIF, 'out')
REPLAYS = os.path.join(OUT, 'replays')
EVIDENCE = os.environ.get('VERIF_EVIDENCE_DIR') or os.path.join(VERIF, 'evidence')
KNOWN = os.path.join(VERIF, 'known_findings.txt')

SEED_MULT = 1_000_003


def run_seed(prop, seed, tier, keep_events=False):
    import engines
    sc = engines.generate(prop, seed, tier)
    res = engines.execute(sc, keep_events=keep_events)
    return sc, res


def _worker_batch(args):
    prop, seeds, tier = args
    faulthandler.dump_traceback_later(900, exit=True)
    import engines
    agg = {
        'n': 0, 'limit': 0, 'ambiguous': 0, 'sim_us': 0, 'steps': 0, 'nontrivial': 0,
        'stats': collections.Counter(), 'order': set(), 'viol': [], 'fault_free': 0, 'samples': [],
        'harness': [], 'other_props': collections.Counter(), 'sigcount': collections.Counter(),
    }
    for seed in seeds:
        try:
            sc = engines.generate(prop, seed, tier)
            res = engines.execute(sc)
        except HarnessError as e:
            agg['harness'].append((seed, 'HarnessError: ' + str(e)))
            continue
        except Exception as e:
            agg['harness'].append((seed, ''.join(traceback.format_exception(type(e), e, e.__traceback__))[-1500:]))
            continue
        agg['n'] += 1
        if res.limit:
            agg['limit'] += 1
            continue
        agg['ambiguous'] += res.ambiguous
        agg['sim_us'] += res.sim_us
        agg['steps'] += res.steps
        agg['stats'].update(res.stats)
        if not any(k.startswith('fault.') for k in res.stats):
            agg['fault_free'] += 1
        if res.nontrivial:
            agg['nontrivial'] += 1
            agg['order'].add(res.order_sig)
        if len(agg['samples']) < 2 and res.nontrivial:
            agg['samples'].append(sc)
        for v in res.violations:
            if v['property'] == prop:
                agg['sigcount'][v['signature']] += 1
                if agg['sigcount'][v['signature']] <= 2:
                    agg['viol'].append((seed, v))
            else:
                agg['other_props'][v['signature']] += 1
        if any(v.get('rule') == 'hang' for v in res.violations):
            break           # every further hang costs the whole watchdog time: this batch has found what there is to find
    faulthandler.cancel_dump_traceback_later()
    agg['stats'] = dict(agg['stats'])
    agg['other_props'] = dict(agg['other_props'])
    agg['sigcount'] = dict(agg['sigcount'])
    return agg


def load_known():
    """known_findings.txt: `open:` / `fixed:` lines with signature=<glob> and what=<text to end of line>."""
    out = []
    if os.path.exists(KNOWN):
        for line in open(KNOWN):
            line = line.strip()
            if not line or line.startswith('#'):
                continue
            status, _, rest = line.partition(':')
            status = status.strip()
            if status not in ('open', 'fixed'):
                continue
            head, _, what = rest.partition(' what=')
            rec = {'status': status, 'what': what.strip()}
            for tok in head.split():
                if '=' in tok:
                    k, v = tok.split('=', 1)
                    rec[k] = v
                elif status == 'fixed':
                    rec['commit'] = tok
            if 'signature' in rec:
                out.append(rec)
    return out


def match_known(sig, known):
    for k in known:
        if k.get('status') == 'open' and fnmatch.fnmatchcase(sig, k['signature']):
            return k
    return None


# ----------------------------------------------------------------------------------------------
# minimisation (delta debugging over the operation list, then per-operation simplification)


def _still_fails(sc, signature, budget):
    import engines
    if budget[0] <= 0:
        return False
    budget[0] -= 1
    try:
        res = engines.execute(sc)
    except Exception:
        return False
    return any(v['signature'] == signature for v in res.violations)


def _gc_packets(sc):
    if 'packets' not in sc:
        return sc
    used = set()

    def visit(ref):
        pid = ref['pid'] if isinstance(ref, dict) else ref
        if pid is None or str(pid) in used:
            return
        used.add(str(pid))
        spec = sc['packets'].get(str(pid))
        if spec is None:
            return
        if spec.get('k') == 'mut':
            visit(spec['base'])
        if spec.get('digest_of') is not None:
            visit(spec['digest_of'])
        if spec.get('digest_from') is not None:
            visit(spec['digest_from'])
    for op in sc.get('ops', []):
        if 'pkt' in op:
            visit(op['pkt'])
        if op.get('digest_of') is not None:
            visit(op['digest_of'])
    sc['packets'] = {k: v for k, v in sc['packets'].items() if k in used}
    return sc


def minimise(sc, signature, max_exec=400):
    import engines
    budget = [max_exec]
    key = engines.ops_key(sc)
    best = copy.deepcopy(sc)
    ops = best[key]
    n = 2
    while len(ops) >= 2 and budget[0] > 0:
        chunk = max(1, len(ops) // n)
        reduced = False
        for i in range(0, len(ops), chunk):
            cand_ops = ops[:i] + ops[i + chunk:]
            if not cand_ops:
                continue
            cand = copy.deepcopy(best)
            cand[key] = cand_ops
            if _still_fails(cand, signature, budget):
                best = cand
                ops = best[key]
                n = max(n - 1, 2)
                reduced = True
                break
        if not reduced:
            if chunk == 1:
                break
            n = min(len(ops), n * 2)
    # per-op simplifications supplied by the engine; restart from the new best after each success
    progress = True
    while progress and budget[0] > 0:
        progress = False
        for cand in engines.simplifications(best):
            if budget[0] <= 0:
                break
            if _still_fails(cand, signature, budget):
                best = cand
                progress = True
                break
    best = _gc_packets(best)
    return best, max_exec - budget[0]


# ----------------------------------------------------------------------------------------------


def check(prop, tier, level, rule_text, components_real, components_stub, assumptions=()):
    t0 = time.time()
    base = int(os.environ.get('VERIF_SEED', '1'))
    jobs = int(os.environ.get('VERIF_JOBS', str(min(16, os.cpu_count() or 1))))
    default_budget = {'quick': 40, 'thorough': 600}[tier]
    budget_s = float(os.environ.get('VERIF_BUDGET_S', default_budget))
    max_runs = int(os.environ.get('VERIF_MAX_RUNS', '0'))
    print(f'SEED property={prop} tier={tier} VERIF_SEED={base} jobs={jobs} budget_s={budget_s}', flush=True)
    import engines
    batch = engines.batch_size(prop)
    known = load_known()

    total = {
        'n': 0, 'limit': 0, 'ambiguous': 0, 'sim_us': 0, 'steps': 0, 'nontrivial': 0, 'fault_free': 0,
        'stats': collections.Counter(), 'order': set(), 'viol': [], 'samples': [], 'harness': [],
        'other_props': collections.Counter(), 'sigcount': collections.Counter(),
    }
    ctx = multiprocessing.get_context('fork')
    next_i = 0
    deadline = t0 + budget_s
    harness_fail = None
    with cf.ProcessPoolExecutor(max_workers=jobs, mp_context=ctx) as ex:
        pending = set()

        def submit():
            nonlocal next_i
            seeds = [base * SEED_MULT + i for i in range(next_i, next_i + batch)]
            next_i += batch
            pending.add(ex.submit(_worker_batch, (prop, seeds, tier)))
        for _ in range(jobs * 2):
            submit()
        while pending:
            done, _ = cf.wait(pending, timeout=960, return_when=cf.FIRST_COMPLETED)
            if not done:
                harness_fail = 'worker batch exceeded wall timeout'
                break
            for f in done:
                pending.discard(f)
                try:
                    agg = f.result()
                except Exception as e:
                    harness_fail = f'worker died: {e!r}'
                    continue
                for k in ('n', 'limit', 'ambiguous', 'sim_us', 'steps', 'nontrivial', 'fault_free'):
                    total[k] += agg[k]
                total['stats'].update(agg['stats'])
                total['other_props'].update(agg['other_props'])
                total['sigcount'].update(agg['sigcount'])
                total['order'] |= agg['order']
                total['viol'].extend(agg['viol'])
                total['harness'].extend(agg['harness'])
                if len(total['samples']) < 3:
                    total['samples'].extend(agg['samples'][:3 - len(total['samples'])])
            if harness_fail:
                break
            n_new = sum(n for sg, n in total['sigcount'].items() if match_known(sg, known) is None)
            stop = time.time() > deadline or (max_runs and next_i >= max_runs) or n_new >= 200 or \
                any(':hang:' in sg for sg in total['sigcount'])
            if not stop:
                while len(pending) < jobs * 2:
                    submit()
        if harness_fail:
            for f in pending:
                f.cancel()
            ex.shutdown(wait=False, cancel_futures=True)

    wall_search = time.time() - t0
    # --- triage violations by signature ---------------------------------------------------
    by_sig = collections.OrderedDict()
    for seed, v in sorted(total['viol'], key=lambda sv: sv[0]):
        by_sig.setdefault(v['signature'], []).append((seed, v))
    new_violations = []
    known_hits = []
    os.makedirs(REPLAYS, exist_ok=True)
    for sig, items in by_sig.items():
        k = match_known(sig, known)
        seed, v = items[0]
        if k is not None:
            known_hits.append((k, sig, seed, total['sigcount'].get(sig, len(items))))
            continue
        path = write_replay(prop, tier, seed, sig, v)
        new_violations.append((sig, seed, v, path, total['sigcount'].get(sig, len(items))))

    printed = {}
    for k, sig, seed, n in known_hits:
        printed.setdefault(id(k), (k, []))[1].append((sig, seed, n))
    for k, hits in printed.values():        # one line per listed finding, whatever number of signatures it covers
        sigs = ', '.join(f'{sig} first_seed={seed} runs={n}' for sig, seed, n in hits)
        print(f'KNOWN-FINDING: property={prop} {k.get("what", hits[0][0])} [signature={sigs}]')
    for sig, seed, v, path, n in new_violations:
        print(f'VIOLATION property={prop} replay={path}')
        print(f'  signature={sig} seed={seed} runs_with_it={n}')
        print(f'  {v["detail"]}')

    wall = time.time() - t0
    ev = {
        'property_id': prop, 'tier': tier, 'seed': base, 'level': level,
        'coverage': {
            'evaluations': total['n'],
            'distinct_nontrivial': len(total['order']),
            'rule': rule_text,
            'samples': [_trim_sample(x) for x in total['samples'][:3]] or [{'note': 'no sample retained'}],
            'nontrivial_runs': total['nontrivial'],
            'fault_free_runs': total['fault_free'],
            'harness_limit_runs': total['limit'],
            'ambiguous_skipped': total['ambiguous'],
            'simulated_seconds': round(total['sim_us'] / 1e6, 3),
            'loop_steps': total['steps'],
            'runs_per_hour': int(total['n'] / max(wall_search, 1e-6) * 3600),
            'seeds_per_hour': int(total['n'] / max(wall_search, 1e-6) * 3600),
            'faults_fired': {k[6:]: v for k, v in sorted(total['stats'].items()) if k.startswith('fault.')},
            'probes': {k[6:]: v for k, v in sorted(total['stats'].items()) if k.startswith('probe.')},
            'counters': {k: v for k, v in sorted(total['stats'].items())
                         if not k.startswith('fault.') and not k.startswith('probe.')},
            'components_real': components_real,
            'components_stub': components_stub,
            'violations_of_other_properties_seen': dict(total['other_props']),
            'known_findings_hit': [sig for _k, sig, _s, _n in known_hits],
            'jobs': jobs,
        },
        'assumptions': list(assumptions),
        'wall_s': round(wall, 2),
        'violations': len(new_violations),
    }
    os.makedirs(EVIDENCE, exist_ok=True)
    with open(os.path.join(EVIDENCE, f'{prop}.json'), 'w') as f:
        json.dump(ev, f, indent=1, default=lambda o: 'hex:' + bytes(o).hex() if isinstance(o, (bytes, bytearray)) else repr(o))
    print(f'SUMMARY property={prop} runs={total["n"]} distinct_nontrivial={len(total["order"])} '
          f'sim_s={total["sim_us"] / 1e6:.1f} limit={total["limit"]} harness_errors={len(total["harness"])} '
          f'violations={len(new_violations)} known={len(known_hits)} wall_s={wall:.1f}', flush=True)
    if total['harness'] or harness_fail:
        for seed, msg in total['harness'][:3]:
            print(f'HARNESS-ERROR property={prop} seed={seed}\n{msg}')
        if harness_fail:
            print(f'HARNESS-ERROR property={prop} {harness_fail}')
        if not new_violations:
            return 2
    if total['n'] == 0:
        print(f'HARNESS-ERROR property={prop} nothing executed')
        return 2
    return 1 if new_violations else 0


def _trim_sample(sc, limit=6000):
    """samples are for a reader to see what cases look like: long lists are cut, with a note"""
    if len(canon(sc)) <= limit:
        return sc
    out = {}
    for k, v in sc.items():
        if isinstance(v, list) and len(v) > 12:
            out[k] = v[:12] + [f'... {len(v) - 12} more']
        elif isinstance(v, dict) and len(canon(v)) > 2000:
            keys = sorted(v)[:8]
            out[k] = {kk: v[kk] for kk in keys}
            out[k]['...'] = f'{len(v) - len(keys)} more'
        elif isinstance(v, str) and len(v) > 400:
            out[k] = v[:400] + '...'
        else:
            out[k] = v
    return out


_MINIMISED = [0]


def write_replay(prop, tier, seed, sig, v):
    import engines
    sc = engines.generate(prop, seed, tier)
    budget = {'keychain': 30, 'trustchain': 120, 'sigs': 150}.get(sc.get('engine'), 400)
    _MINIMISED[0] += 1
    if _MINIMISED[0] > 6:
        budget = 0          # many distinct violations in one run: the first ones are minimised, the rest reported as found
    if ':hang:' in sig:
        budget = 0          # every execution that still hangs costs the whole watchdog time: reported as found
    try:
        small, execs = minimise(sc, sig, budget) if budget else (sc, 0)
    except Exception:
        small, execs = sc, 0
    res = engines.execute(small)
    vv = [x for x in res.violations if x['signature'] == sig]
    if not vv:
        small = sc
        res = engines.execute(small)
        vv = [x for x in res.violations if x['signature'] == sig] or [v]
    rec = {
        'property': prop, 'seed': seed, 'tier': tier, 'signature': sig, 'violation': vv[0],
        'digest': res.digest, 'minimise_executions': execs, 'scenario': small, 'original_scenario': sc,
    }
    safe = sig.replace(':', '_').replace('/', '_').replace('<', '').replace('>', '')[:80]
    path = os.path.join(REPLAYS, f'{prop}-{safe}-{seed}.json')
    with open(path, 'w') as f:
        f.write(json.dumps(rec, indent=1, default=lambda o: 'hex:' + bytes(o).hex()))
    return path


def replay(path):
    import engines
    rec = json.load(open(path))
    sc = rec['scenario']
    res = engines.execute(sc, keep_events=True)
    hit = [v for v in res.violations if v['signature'] == rec['signature']]
    print(f'REPLAY property={rec["property"]} seed={rec["seed"]} signature={rec["signature"]}')
    if hit:
        same = res.digest == rec['digest']
        print(f'VIOLATION property={rec["property"]} replay={path}')
        print(f'  {hit[0]["detail"]}')
        print(f'  history digest {"identical" if same else "DIFFERS"} ({res.digest[:16]} vs {rec["digest"][:16]})')
        return 1
    print('NOT-REPRODUCED')
    for v in res.violations:
        print('  other:', v['signature'], v['detail'][:200])
    return 3
